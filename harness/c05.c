/* C05 - CTR mode, one inductive step / base cases per back end.
 * Parameters: CIPHER, VEC, NR, and one of
 *   OB_STEP   with O (offset in the buffered batch, 0..B), N (bytes of this call), INPLACE
 *   OB_SETCTR with LEN (0..BLK) or NULLCTR
 *   OB_INIT   [CALLOC_SHIFT]
 */
#include "ctr_model.h"
#if VEC
#define L LANES
#else
#define L 1
#endif
#define B (BLK * L)

#if VEC && defined(OB_INIT)
#ifndef CALLOC_SHIFT
#define CALLOC_SHIFT 0
#endif
/* model of skinny_calloc with its documented contract (zeroed block, SIMD-aligned pointer inside it, base returned);
   the real function is decided separately on integers (C15): its pointer rounding would make every later offset symbolic */
uint8_t *ll_skinny_calloc(uint64_t size, uint8_t *base_ptr)
{
    uint8_t *p = calloc(1, size + 31);
    if (!p) return 0;
    *(void **)base_ptr = p;
    return p + CALLOC_SHIFT;
}
#endif

uint8_t sym_C[BLK];
#ifdef OB_STEP
uint8_t sym_in[N + 1], sym_stale[B];
#endif
#ifdef OB_SETCTR
uint8_t sym_cnt[BLK + 1];
#endif
#ifdef OB_REKEY
uint8_t sym_stale[B], sym_newkey[48];
#endif

/* counter value C + m (m may be negative), big-endian, modulo 2^(8*BLK): written independently of the library */
static void ctr_plus(uint8_t *out, const uint8_t *c, int m)
{
    if (out != c) memcpy(out, c, BLK);
    if (m >= 0) vh_be_add(out, BLK, (unsigned)m);
    else for (int k = 0; k < -m; k++) vh_be_dec(out, BLK);
}

#if VEC
static uint8_t vctx[V_SIZE] __attribute__((aligned(32)));
#else
static GCTX_T gctx;
#endif

/* ---- accessors that hide the back end ---- */
static unsigned get_offset(void)
{
#if VEC
    return V_OFF(vctx);
#else
    return gctx.offset;
#endif
}
static uint8_t get_ecounter(unsigned i)
{
#if VEC
    return vctx[V_ECOUNTER + i];
#else
    return gctx.ecounter[i];
#endif
}
static void get_lane(int j, uint8_t *got)
{
#if VEC
    v_get_lane(vctx, j, got);
#else
    (void)j; memcpy(got, gctx.counter, BLK);
#endif
}
#define check_lanes(c0, msg) do { uint8_t want_[BLK], got_[BLK]; \
    for (int j = 0; j < L; j++) { ctr_plus(want_, (c0), j); get_lane(j, got_); for (int i = 0; i < BLK; i++) CHECK(got_[i] == want_[i], msg); } } while (0)

void harness(void)
{
    static KS_T ks; HANDLE_T h;
    HARNESS_BEGIN();
    SYM_U8A(sym_C);
#if VEC
    vhandle_t vh; vh.vtable = 0; vh.ctx = vctx; (void)h;
#else
    h.vtable = &GEN_VT; h.ctx = &gctx;
#endif

#if defined(OB_STEP)
    uint8_t blkc[BLK], e[BLK];
    SYM_U8A(sym_in); SYM_U8A(sym_stale);
    arbitrary_schedule(&ks);
    /* ---- pre-state satisfying Inv(C, O) ---- */
#if VEC
    { uint8_t nd[V_SIZE]; memcpy(vctx, nd, V_SIZE); }                /* everything else arbitrary */
    memcpy(vctx, &ks, sizeof ks);
    for (int j = 0; j < L; j++) { ctr_plus(blkc, sym_C, j); v_set_lane(vctx, j, blkc); }
    V_OFF(vctx) = O;
#else
    { GCTX_T nd; gctx = nd; }
    KS_OF(&gctx) = ks; memcpy(gctx.counter, sym_C, BLK); gctx.offset = O;
#endif
    for (int b = 0; b < L; b++) {
        if ((b + 1) * BLK > O) { ctr_plus(blkc, sym_C, b - L); oracle_E(e, blkc, &ks); }
        for (int i = 0; i < BLK; i++) {
            unsigned pos = (unsigned)(b * BLK + i); uint8_t v = (pos >= O) ? e[i] : sym_stale[pos];
#if VEC
            vctx[V_ECOUNTER + pos] = v;
#else
            gctx.ecounter[pos] = v;
#endif
        }
    }
    /* ---- the call: exact-extent buffers ---- */
    uint8_t *in = malloc(N ? N : 1), *out; ASSUME(in != 0);
    memcpy(in, sym_in, N);
#if INPLACE
    out = in;
#else
    out = malloc(N ? N : 1); ASSUME(out != 0);
#endif
#if VEC
    CHECK(VF(encrypt)(out, in, N, (uint8_t *)&vh) == 1, "encrypt returns 1");
#else
    CHECK(PUB(encrypt)(out, in, N, &h) == 1, "encrypt returns 1");
#endif
    /* ---- expected output: rest of the buffered batch from O, then E(C), E(C+1), ... ---- */
    int have = -1000;
    for (unsigned k = 0; k < N; k++) {
        unsigned abs = O + k; int blockno = (int)(abs / BLK) - L;     /* block C + blockno */
        if (blockno != have) { ctr_plus(blkc, sym_C, blockno); oracle_E(e, blkc, &ks); have = blockno; }
        CHECK(out[k] == (uint8_t)(sym_in[k] ^ e[abs % BLK]), "output byte = input byte xor keystream E(c), E(c+1), ... at this stream position");
    }
    /* ---- post-state: Inv again ---- */
    unsigned end = O + N;
    unsigned g = (N == 0) ? 0 : (end + B - 1) / B - 1;               /* new batches generated */
    uint8_t cnew[BLK]; ctr_plus(cnew, sym_C, (int)(g * L));
    check_lanes(cnew, "counter lanes hold the next unused counter values");
    if (N == 0) CHECK(get_offset() == O, "a zero-length call changes nothing");
    else if (end % B == 0) CHECK(get_offset() >= B, "batch fully consumed");
    else CHECK(get_offset() == end % B, "offset is the position inside the current batch");
    if (N != 0 && end % B != 0) {
        have = -1000;
        for (unsigned pos = end % B; pos < B; pos++) {
            int blockno = (int)(g * L) - L + (int)(pos / BLK);
            if (blockno != have) { ctr_plus(blkc, sym_C, blockno); oracle_E(e, blkc, &ks); have = blockno; }
            CHECK(get_ecounter(pos) == e[pos % BLK], "unused buffered keystream is the encryption of the counters it stands for");
        }
    }
#elif defined(OB_REKEY)
    /* key / tweak change in mid-stream: whatever the back end does with its buffer, it must not keep keystream that was
       generated under the old key or tweak, and its lanes must stay staggered (Inv again, under the NEW schedule) */
    uint8_t blkc[BLK], e[BLK], lane0[BLK];
    SYM_U8A(sym_stale); SYM_U8A(sym_newkey);
    arbitrary_schedule(&ks);
#if VEC
    { uint8_t nd[V_SIZE]; memcpy(vctx, nd, V_SIZE); }
    memcpy(vctx, &ks, sizeof ks);
    for (int j = 0; j < L; j++) { ctr_plus(blkc, sym_C, j); v_set_lane(vctx, j, blkc); }
    V_OFF(vctx) = O;
    for (unsigned pos = 0; pos < B; pos++) vctx[V_ECOUNTER + pos] = sym_stale[pos];      /* old keystream: any bytes */
#else
    { GCTX_T nd; gctx = nd; }
    KS_OF(&gctx) = ks; memcpy(gctx.counter, sym_C, BLK); gctx.offset = O;
    for (unsigned pos = 0; pos < B; pos++) gctx.ecounter[pos] = sym_stale[pos];
#endif
    int r;
#if OP == 1
#if CIPHER == 3
#if VEC
    r = (int)VF(set_key)((uint8_t *)&vh, sym_newkey, 16, 5 + (KLEN & 3));
#else
    r = PUB(set_key)(&h, sym_newkey, 16, 5 + (KLEN & 3));
#endif
#else
#if VEC
    r = (int)VF(set_key)((uint8_t *)&vh, sym_newkey, KLEN);
#else
    r = PUB(set_key)(&h, sym_newkey, KLEN);
#endif
#endif
#elif OP == 2
#if VEC
    r = (int)VF(set_tweaked_key)((uint8_t *)&vh, sym_newkey, KLEN);
#else
    r = PUB(set_tweaked_key)(&h, sym_newkey, KLEN);
#endif
#else
#if VEC
    r = (int)VF(set_tweak)((uint8_t *)&vh, sym_newkey, KLEN);
#else
    r = PUB(set_tweak)(&h, sym_newkey, KLEN);
#endif
#endif
    CHECK(r == 1, "the key / tweak change is accepted");
    get_lane(0, lane0);
    check_lanes(lane0, "counter lanes stay staggered c, c+1, ... across a key or tweak change");
    if (get_offset() < B) {
        /* some keystream is still considered buffered: it must be the encryption, under the NEW schedule, of the counters it stands for */
        static KS_T now;
#if VEC
        memcpy(&now, vctx, sizeof now);
#else
        now = KS_OF(&gctx);
#endif
        for (unsigned pos = get_offset(); pos < B; pos++) {
            ctr_plus(blkc, lane0, (int)(pos / BLK) - L); oracle_E(e, blkc, &now);
            CHECK(get_ecounter(pos) == e[pos % BLK], "no keystream generated under the old key or tweak is used after the change");
        }
    }
#elif defined(OB_SETCTR)
    SYM_U8A(sym_cnt);
#if VEC
    { uint8_t nd[V_SIZE]; memcpy(vctx, nd, V_SIZE); }
#else
    { GCTX_T nd; gctx = nd; }
#endif
    uint8_t want[BLK]; memset(want, 0, BLK);
#ifdef NULLCTR
    uint8_t *cp = 0; unsigned len = LEN;
#else
    unsigned len = LEN; uint8_t *cp = malloc(len ? len : 1); ASSUME(cp != 0); memcpy(cp, sym_cnt, len);
    memcpy(want + BLK - len, sym_cnt, len);                           /* short counter: left-padded with zeros */
#endif
#if VEC
    CHECK(VF(set_counter)((uint8_t *)&vh, cp, len) == 1, "set_counter accepts a length 0..block size (or a null counter)");
#else
    CHECK(PUB(set_counter)(&h, cp, len) == 1, "set_counter accepts a length 0..block size (or a null counter)");
#endif
    check_lanes(want, "after set_counter the lanes hold c, c+1, ... for the zero-left-padded counter");
    CHECK(get_offset() >= B, "set_counter discards buffered keystream");
#elif defined(OB_INIT)
    uint8_t zero[BLK]; memset(zero, 0, BLK);
#if VEC
    vh.ctx = 0;
    CHECK(VF(init)((uint8_t *)&vh) == 1, "init succeeds when memory is available");
    CHECK(vh.ctx != 0, "context allocated");
    memcpy(vctx, vh.ctx, V_SIZE);                                    /* look at the context image */
#else
    h.ctx = 0;
    CHECK(GEN(init)(&h) == 1, "init succeeds when memory is available");
    CHECK(h.ctx != 0, "context allocated");
    gctx = *(GCTX_T *)h.ctx;
#endif
    check_lanes(zero, "after initialisation the counter lanes hold 0, 1, 2, ... (first keystream block is E(0), the next E(1))");
    CHECK(get_offset() >= B, "no keystream is buffered after initialisation");
#else
#error "no obligation"
#endif
    WITNESS_POINT();
}
#include "vh_end.h"
