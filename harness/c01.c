/* C01 - SKINNY conformance.  Parameters: CB (8|4), OB_* selects the obligation,
 * KEYLEN (bytes, primary sizes), DIR (0 encrypt, 1 decrypt), NR (rounds for OB_ARB) */
#include "vh.h"
#include "cipher_sel.h"
#include "ref_skinny.h"

#if defined(OB_E2E)
/* forall key, forall block: set_key ; ecb_{en,de}crypt == specification cipher; rounds as specified */
uint8_t sym_key[KEYLEN], sym_in[BLK];
void harness(void)
{
    KEY_T ks; uint8_t out[BLK], exp[BLK];
    HARNESS_BEGIN();
    SYM_U8A(sym_key); SYM_U8A(sym_in);
    int ok = SET_KEY(&ks, sym_key, KEYLEN);
    CHECK(ok == 1, "set_key accepts a primary key size");
    CHECK(ks.rounds == (unsigned)ref_rounds(CB, KEYLEN / BLK), "round count is the specified one for this tweakey size");
#if DIR == 0
    ENC(out, sym_in, &ks);
    ref_skinny_encrypt(CB, exp, sym_in, sym_key, KEYLEN / BLK, 0);
    CHECK_BYTES_EQ(out, exp, BLK, "ciphertext equals the specification's ciphertext");
#else
    DEC(out, sym_in, &ks);
    ref_skinny_decrypt(CB, exp, sym_in, sym_key, KEYLEN / BLK, 0);
    CHECK_BYTES_EQ(out, exp, BLK, "decryption equals the specification's inverse cipher");
#endif
    WITNESS_POINT();
}

#elif defined(OB_SCHED)
/* forall key: every schedule entry equals the specification's round tweakey (first two rows, constants folded in) */
uint8_t sym_key[KEYLEN];
void harness(void)
{
    KEY_T ks; uint8_t rk[REF_MAX_ROUNDS][8], exp[RKB], got[RKB];
    HARNESS_BEGIN();
    SYM_U8A(sym_key);
    CHECK(SET_KEY(&ks, sym_key, KEYLEN) == 1, "set_key accepts a primary key size");
    int rounds = ref_rounds(CB, KEYLEN / BLK);
    CHECK(ks.rounds == (unsigned)rounds, "round count is the specified one");
    ref_skinny_roundkeys(CB, sym_key, KEYLEN / BLK, rounds, 0, rk);
    for (int r = 0; r < rounds; r++) {
        ref_pack_rk(CB, exp, rk[r]); vh_load_rk(&ks, (unsigned)r, got);
        CHECK_BYTES_EQ(got, exp, RKB, "schedule entry equals the specification's round tweakey");
    }
    WITNESS_POINT();
}

#elif defined(OB_SCHED2)
/* the schedule of a key does not depend on which key was set before, on this or another object (no hidden state between
   calls): forall K1 (KEYLEN1 bytes), forall K2 (KEYLEN bytes, free to share any bytes with K1) */
uint8_t sym_key1[KEYLEN1], sym_key[KEYLEN];
void harness(void)
{
    static KEY_T other, ks; uint8_t rk[REF_MAX_ROUNDS][8], exp[RKB], got[RKB];
    HARNESS_BEGIN();
    SYM_U8A(sym_key1); SYM_U8A(sym_key);
    CHECK(SET_KEY(&other, sym_key1, KEYLEN1) == 1, "first key accepted");
    CHECK(SET_KEY(&ks, sym_key, KEYLEN) == 1, "second key accepted");
    int rounds = ref_rounds(CB, KEYLEN / BLK);
    CHECK(ks.rounds == (unsigned)rounds, "round count is the specified one");
    ref_skinny_roundkeys(CB, sym_key, KEYLEN / BLK, rounds, 0, rk);
    for (int r = 0; r < rounds; r++) {
        ref_pack_rk(CB, exp, rk[r]); vh_load_rk(&ks, (unsigned)r, got);
        CHECK_BYTES_EQ(got, exp, RKB, "schedule entry equals the specification's round tweakey whatever key was set before");
    }
    WITNESS_POINT();
}

#elif defined(OB_ARB)
/* forall NR-round schedule (arbitrary round tweakeys), forall block: real cipher == NR specification rounds */
uint8_t sym_rk[NR][RKB], sym_in[BLK];
void harness(void)
{
    KEY_T ks; uint8_t out[BLK], exp[BLK]; uint8_t rk[NR][8];
    HARNESS_BEGIN();
    SYM_U8A(sym_in);
    for (int r = 0; r < NR; r++) { SYM_U8A(sym_rk[r]); }
    ks.rounds = NR;
    for (int r = 0; r < NR; r++) { vh_store_rk(&ks, (unsigned)r, sym_rk[r]); ref_unpack_rk(CB, rk[r], sym_rk[r]); }
#if DIR == 0
    ENC(out, sym_in, &ks);
    ref_skinny_encrypt_rk(CB, exp, sym_in, rk, NR);
    CHECK_BYTES_EQ(out, exp, BLK, "encryption on an arbitrary schedule equals the specification rounds");
#else
    DEC(out, sym_in, &ks);
    ref_skinny_decrypt_rk(CB, exp, sym_in, rk, NR);
    CHECK_BYTES_EQ(out, exp, BLK, "decryption on an arbitrary schedule equals the inverse specification rounds");
#endif
    WITNESS_POINT();
}

#elif defined(OB_SBOX)
/* forall machine words: the bit-sliced S-box word functions equal the specification S-box on every cell lane */
uint64_t sym_w;
void harness(void)
{
    HARNESS_BEGIN();
    SYM_VAL(sym_w);
#if SKINNY_64BIT
    uint64_t x = sym_w; uint64_t y = SBOX(x), yi = INV_SBOX(x); int lanes = 64 / CB;
#else
    uint32_t x = (uint32_t)sym_w; uint32_t y = SBOX(x), yi = INV_SBOX(x); int lanes = 32 / CB;
#endif
    for (int l = 0; l < lanes; l++) {
        uint8_t c = (uint8_t)((x >> (CB * l)) & ((1u << CB) - 1));
        CHECK((uint8_t)((y >> (CB * l)) & ((1u << CB) - 1)) == ref_S(CB, c), "S-box word function equals the specification S-box in this lane");
        CHECK((uint8_t)((yi >> (CB * l)) & ((1u << CB) - 1)) == ref_Sinv(CB, c), "inverse S-box word function equals the specification inverse in this lane");
    }
    WITNESS_POINT();
}
#else
#error "no obligation selected"
#endif
#include "vh_end.h"
