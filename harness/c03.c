/* C03 - decryption inverts encryption.  OB_RT: CB, KEYLEN, ORDER (0 dec(enc(x)), 1 enc(dec(x)));
 * OB_SWAP2 / OB_SWAPKEY (MODE) / OB_SWAPTWEAK / OB_SWAPINV (R) / OB_PSWAP: Mantis mode switching */
#include "vh.h"
#if defined(OB_RT)
#include "cipher_sel.h"
uint8_t sym_key[KEYLEN], sym_in[BLK];
void harness(void)
{
    static KEY_T ks; uint8_t a[BLK], b[BLK];
    HARNESS_BEGIN();
    SYM_U8A(sym_key); SYM_U8A(sym_in);
    CHECK(SET_KEY(&ks, sym_key, KEYLEN) == 1, "key accepted");
#if ORDER == 0
    ENC(a, sym_in, &ks); DEC(b, a, &ks);
    CHECK_BYTES_EQ(b, sym_in, BLK, "decrypting an encrypted block returns the original block");
#else
    DEC(a, sym_in, &ks); ENC(b, a, &ks);
    CHECK_BYTES_EQ(b, sym_in, BLK, "encrypting a decrypted block returns the original block");
#endif
    WITNESS_POINT();
}
#else
#include "mantis-cipher.c"
#ifdef OB_PSWAP
#include <stdlib.h>
int _skinny_has_vec128(void) { return 0; } int _skinny_has_vec256(void) { return 0; }
void _mantis_parallel_crypt_vec128(void *o, const void *i, const void *t, const MantisKey_t *k) { (void)o; (void)i; (void)t; (void)k; }
#include "mantis-parallel.c"
#endif
uint64_t sym_s[4]; unsigned sym_rounds; uint8_t sym_key[16], sym_tw[8], sym_in[8];
static void image(MantisKey_t *s) { s->k0.llrow = sym_s[0]; s->k0prime.llrow = sym_s[1]; s->k1.llrow = sym_s[2]; s->tweak.llrow = sym_s[3]; s->rounds = sym_rounds; }
static int same(const MantisKey_t *a, const MantisKey_t *b)
{ return a->k0.llrow == b->k0.llrow && a->k0prime.llrow == b->k0prime.llrow && a->k1.llrow == b->k1.llrow && a->tweak.llrow == b->tweak.llrow && a->rounds == b->rounds; }
void harness(void)
{
    static MantisKey_t s, t, u; uint8_t a[8], b[8];
    HARNESS_BEGIN();
    SYM_U64A(sym_s); SYM_VAL(sym_rounds); SYM_U8A(sym_key); SYM_U8A(sym_tw); SYM_U8A(sym_in);
    (void)a; (void)b; (void)t; (void)u;
#if defined(OB_SWAP2)
    image(&s); t = s; mantis_swap_modes(&t); mantis_swap_modes(&t);
    CHECK(same(&s, &t), "switching modes twice restores the schedule exactly (tweak included)");
#elif defined(OB_SWAPKEY)
    /* switching once == keying afresh in the other mode and re-applying the tweak */
    CHECK(mantis_set_key(&s, sym_key, 16, R, MODE) == 1, "key accepted"); CHECK(mantis_set_tweak(&s, sym_tw, 8) == 1, "tweak accepted");
    mantis_swap_modes(&s);
    CHECK(mantis_set_key(&t, sym_key, 16, R, !MODE) == 1, "key accepted"); CHECK(mantis_set_tweak(&t, sym_tw, 8) == 1, "tweak accepted");
    CHECK(same(&s, &t), "one mode switch equals keying afresh in the other mode and re-applying the tweak");
#elif defined(OB_SWAPTWEAK)
    /* mode switch and tweak change commute from ANY schedule image: interleavings of any length follow by induction */
    image(&s); t = s; u = s;
    mantis_swap_modes(&t); CHECK(mantis_set_tweak(&t, sym_tw, 8) == 1, "tweak accepted");
    CHECK(mantis_set_tweak(&u, sym_tw, 8) == 1, "tweak accepted"); mantis_swap_modes(&u);
    CHECK(same(&t, &u), "mode switch and tweak change commute; the tweak survives a mode switch");
#elif defined(OB_SWAPINV)
    /* for ANY schedule image with R rounds: the switched schedule is the exact inverse */
    image(&s); s.rounds = R; t = s; mantis_swap_modes(&t);
    mantis_ecb_crypt(a, sym_in, &s); mantis_ecb_crypt(b, a, &t);
    CHECK_BYTES_EQ(b, sym_in, 8, "processing with the switched schedule undoes processing with the original one");
#elif defined(OB_PSWAP)
    /* the parallel wrapper applies the same switch to the schedule it wraps, and ignores inert handles */
    MantisParallelECB_t e; image(&s); t = s; e.vtable = 0; e.ctx = &t; e.parallel_size = 64;
    mantis_parallel_ecb_swap_modes(&e); u = s; mantis_swap_modes(&u);
    CHECK(same(&t, &u), "mantis_parallel_ecb_swap_modes switches the wrapped schedule exactly as mantis_swap_modes does");
    e.ctx = 0; mantis_parallel_ecb_swap_modes(&e); mantis_parallel_ecb_swap_modes(0);
#endif
    WITNESS_POINT();
}
#endif
#include "vh_end.h"
