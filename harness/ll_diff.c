/* ll_diff.c - differential validation of the ll2c translator, run natively (gcc) before any
 * solver verdict that depends on translated code is trusted: the translated functions (ll_ prefix,
 * compiled from the generated C) must agree with the gcc build of the real functions on the
 * published vectors' keys and on random inputs.  Prints LL-DIFF-OK or the first disagreement. */
#include <stdio.h>
#include <stdlib.h>
#include <string.h>
#include <stdint.h>
#include "skinny128-cipher.h"
#include "skinny64-cipher.h"
#include "mantis-cipher.h"
#include "skinny128-parallel.h"
#include "skinny64-parallel.h"
#include "mantis-parallel.h"
#include "skinny128-ctr-internal.h"
#include "skinny64-ctr-internal.h"
#include "mantis-ctr-internal.h"

uint8_t nondet_u8(void){ return (uint8_t)rand(); } uint16_t nondet_u16(void){ return (uint16_t)rand(); }
uint32_t nondet_u32(void){ return (uint32_t)rand(); } uint64_t nondet_u64(void){ return ((uint64_t)rand()<<32)^(uint64_t)rand(); }
void verif_cpuid(unsigned l, unsigned s, unsigned *a, unsigned *b, unsigned *c, unsigned *d){ *a=*b=*c=*d=0; }
unsigned verif_garbage_ecx(void){ return 0; } void verif_xgetbv(unsigned i, unsigned *lo, unsigned *hi){ *lo=*hi=0; }

/* translated entry points (erased signatures) */
uint32_t ll_skinny128_set_key(uint8_t*, uint8_t*, uint32_t); void ll_skinny128_ecb_encrypt(uint8_t*, uint8_t*, uint8_t*); void ll_skinny128_ecb_decrypt(uint8_t*, uint8_t*, uint8_t*);
uint32_t ll_skinny128_set_tweaked_key(uint8_t*, uint8_t*, uint32_t); uint32_t ll_skinny128_set_tweak(uint8_t*, uint8_t*, uint32_t);
uint32_t ll_skinny64_set_key(uint8_t*, uint8_t*, uint32_t); void ll_skinny64_ecb_encrypt(uint8_t*, uint8_t*, uint8_t*); void ll_skinny64_ecb_decrypt(uint8_t*, uint8_t*, uint8_t*);
uint32_t ll_skinny64_set_tweaked_key(uint8_t*, uint8_t*, uint32_t); uint32_t ll_skinny64_set_tweak(uint8_t*, uint8_t*, uint32_t);
uint32_t ll_mantis_set_key(uint8_t*, uint8_t*, uint32_t, uint32_t, uint32_t); uint32_t ll_mantis_set_tweak(uint8_t*, uint8_t*, uint32_t);
void ll_mantis_ecb_crypt(uint8_t*, uint8_t*, uint8_t*); void ll_mantis_ecb_crypt_tweaked(uint8_t*, uint8_t*, uint8_t*, uint8_t*); void ll_mantis_swap_modes(uint8_t*);
void ll__skinny128_parallel_encrypt_vec128(uint8_t*, uint8_t*, uint8_t*); void ll__skinny128_parallel_decrypt_vec128(uint8_t*, uint8_t*, uint8_t*);
void ll__skinny128_parallel_encrypt_vec256(uint8_t*, uint8_t*, uint8_t*); void ll__skinny128_parallel_decrypt_vec256(uint8_t*, uint8_t*, uint8_t*);
void ll__skinny64_parallel_encrypt_vec128(uint8_t*, uint8_t*, uint8_t*); void ll__skinny64_parallel_decrypt_vec128(uint8_t*, uint8_t*, uint8_t*);
void ll__mantis_parallel_crypt_vec128(uint8_t*, uint8_t*, uint8_t*, uint8_t*);
extern uint8_t ll__skinny128_ctr_vec128[], ll__skinny128_ctr_vec256[], ll__skinny64_ctr_vec128[], ll__mantis_ctr_vec128[];
void LL_INITS(void);
/* real entry points that are not in the public headers */
void _skinny128_parallel_encrypt_vec128(void*, const void*, const Skinny128Key_t*); void _skinny128_parallel_decrypt_vec128(void*, const void*, const Skinny128Key_t*);
void _skinny128_parallel_encrypt_vec256(void*, const void*, const Skinny128Key_t*); void _skinny128_parallel_decrypt_vec256(void*, const void*, const Skinny128Key_t*);
void _skinny64_parallel_encrypt_vec128(void*, const void*, const Skinny64Key_t*); void _skinny64_parallel_decrypt_vec128(void*, const void*, const Skinny64Key_t*);
void _mantis_parallel_crypt_vec128(void*, const void*, const void*, const MantisKey_t*);

static int bad; static long cases;
static void rnd(void *p, size_t n){ for (size_t i=0;i<n;i++) ((uint8_t*)p)[i]=(uint8_t)rand(); }
#define EXPECT(c, what) do { cases++; if (!(c)) { if (!bad) printf("LL-DIFF-MISMATCH: %s\n", what); bad++; } } while (0)

typedef uint32_t (*f_init)(uint8_t*); typedef void (*f_cleanup)(uint8_t*); typedef uint32_t (*f_key)(uint8_t*, uint8_t*, uint32_t);
typedef uint32_t (*f_enc)(uint8_t*, uint8_t*, uint64_t, uint8_t*); typedef uint32_t (*f_mkey)(uint8_t*, uint8_t*, uint32_t, uint32_t);

/* one CTR session through a translated vtable (byte image) and through the real vtable */
static void ctr_session(const char *what, uint8_t *llvt, int mantis, int blk,
                        const void *realvt, int maxkey)
{
    uint8_t key[48], cnt[16], tw[16], in[700], o1[700] = {0}, o2[700] = {0};
    struct { const void *vtable; void *ctx; } h1 = {0,0}, h2 = {0,0};
    /* vtable slots: skinny: init,cleanup,set_key,set_tweaked_key,set_tweak,set_counter,encrypt ; mantis: init,cleanup,set_key,set_tweak,set_counter,encrypt */
    void **lv = (void**)llvt; void *const *rv = (void *const *)realvt;
    int s_key = 2, s_tkey = mantis ? -1 : 3, s_tw = mantis ? 3 : 4, s_cnt = mantis ? 4 : 5, s_enc = mantis ? 5 : 6;
    rnd(key, sizeof key); rnd(cnt, sizeof cnt); rnd(tw, sizeof tw); rnd(in, sizeof in);
    h1.vtable = llvt; h2.vtable = realvt;
    EXPECT(((f_init)lv[0])((uint8_t*)&h1) == 1, what); EXPECT(((int(*)(void*))rv[0])(&h2) == 1, what);
    int tweaked = !mantis && (rand() & 1);
    unsigned klen = mantis ? 16 : (unsigned)(blk * (1 + rand() % (tweaked ? 2 : 3)));
    (void)maxkey;
    if (mantis) { unsigned r = 5 + rand() % 4; EXPECT(((f_mkey)lv[s_key])((uint8_t*)&h1, key, 16, r) == 1, what); EXPECT(((int(*)(void*,const void*,unsigned,unsigned))rv[s_key])(&h2, key, 16, r) == 1, what); }
    else if (tweaked) { EXPECT(((f_key)lv[s_tkey])((uint8_t*)&h1, key, klen) == 1, what); EXPECT(((int(*)(void*,const void*,unsigned))rv[s_tkey])(&h2, key, klen) == 1, what); }
    else { EXPECT(((f_key)lv[s_key])((uint8_t*)&h1, key, klen) == 1, what); EXPECT(((int(*)(void*,const void*,unsigned))rv[s_key])(&h2, key, klen) == 1, what); }
    if (mantis || tweaked) { unsigned tl = mantis ? 8 : 1 + rand() % blk; EXPECT(((f_key)lv[s_tw])((uint8_t*)&h1, tw, tl) == 1, what); EXPECT(((int(*)(void*,const void*,unsigned))rv[s_tw])(&h2, tw, tl) == 1, what); }
    unsigned cl = rand() % (blk + 1); if (rand() % 4 == 0) memset(cnt, 0xFF, sizeof cnt);
    EXPECT(((f_key)lv[s_cnt])((uint8_t*)&h1, cnt, cl) == 1, what); EXPECT(((int(*)(void*,const void*,unsigned))rv[s_cnt])(&h2, cnt, cl) == 1, what);
    size_t pos = 0;
    while (pos < sizeof in) {
        size_t n = rand() % 150; if (n > sizeof in - pos) n = sizeof in - pos;
        EXPECT(((f_enc)lv[s_enc])(o1 + pos, in + pos, n, (uint8_t*)&h1) == 1, what);
        EXPECT(((int(*)(void*,const void*,size_t,void*))rv[s_enc])(o2 + pos, in + pos, n, &h2) == 1, what);
        pos += n ? n : 1;
    }
    EXPECT(memcmp(o1, o2, sizeof in) == 0, what);
    ((f_cleanup)lv[1])((uint8_t*)&h1); ((void(*)(void*))rv[1])(&h2);
}

int main(void)
{
    srand(12345);
    LL_INITS();
    for (int it = 0; it < 300; it++) {
        uint8_t key[48], in[128], tw[128], o1[128], o2[128]; rnd(key, 48); rnd(in, 128); rnd(tw, 128);
        /* scalar ciphers */
        { Skinny128Key_t a, b; unsigned kl = 16 + rand() % 33; memset(&a,0,sizeof a); memset(&b,0,sizeof b);
          if (kl % 16) kl = 16 * (1 + kl / 16 % 3);
          EXPECT(ll_skinny128_set_key((uint8_t*)&a, key, kl) == (uint32_t)skinny128_set_key(&b, key, kl), "skinny128_set_key ret");
          EXPECT(a.rounds == b.rounds && !memcmp(a.schedule, b.schedule, 8 * b.rounds), "skinny128_set_key schedule");
          ll_skinny128_ecb_encrypt(o1, in, (uint8_t*)&a); skinny128_ecb_encrypt(o2, in, &b); EXPECT(!memcmp(o1,o2,16), "skinny128_ecb_encrypt");
          ll_skinny128_ecb_decrypt(o1, in, (uint8_t*)&a); skinny128_ecb_decrypt(o2, in, &b); EXPECT(!memcmp(o1,o2,16), "skinny128_ecb_decrypt");
          ll__skinny128_parallel_encrypt_vec128(o1, in, (uint8_t*)&b); _skinny128_parallel_encrypt_vec128(o2, in, &b); EXPECT(!memcmp(o1,o2,64), "skinny128 parallel encrypt vec128");
          ll__skinny128_parallel_decrypt_vec128(o1, in, (uint8_t*)&b); _skinny128_parallel_decrypt_vec128(o2, in, &b); EXPECT(!memcmp(o1,o2,64), "skinny128 parallel decrypt vec128");
          ll__skinny128_parallel_encrypt_vec256(o1, in, (uint8_t*)&b); _skinny128_parallel_encrypt_vec256(o2, in, &b); EXPECT(!memcmp(o1,o2,128), "skinny128 parallel encrypt vec256");
          ll__skinny128_parallel_decrypt_vec256(o1, in, (uint8_t*)&b); _skinny128_parallel_decrypt_vec256(o2, in, &b); EXPECT(!memcmp(o1,o2,128), "skinny128 parallel decrypt vec256");
          Skinny128TweakedKey_t ta, tb; unsigned tl = 1 + rand() % 16; memset(&ta,0,sizeof ta); memset(&tb,0,sizeof tb);
          EXPECT(ll_skinny128_set_tweaked_key((uint8_t*)&ta, key, 16 + 16 * (it & 1)) == 1 && skinny128_set_tweaked_key(&tb, key, 16 + 16 * (it & 1)) == 1, "skinny128_set_tweaked_key");
          EXPECT(ll_skinny128_set_tweak((uint8_t*)&ta, tw, tl) == 1 && skinny128_set_tweak(&tb, tw, tl) == 1, "skinny128_set_tweak");
          EXPECT(!memcmp(ta.tweak, tb.tweak, 16) && !memcmp(ta.ks.schedule, tb.ks.schedule, 8 * tb.ks.rounds), "skinny128 tweaked schedule"); }
        { Skinny64Key_t a, b; unsigned kl = 8 * (1 + rand() % 3); memset(&a,0,sizeof a); memset(&b,0,sizeof b);
          EXPECT(ll_skinny64_set_key((uint8_t*)&a, key, kl) == (uint32_t)skinny64_set_key(&b, key, kl), "skinny64_set_key ret");
          EXPECT(a.rounds == b.rounds && !memcmp(a.schedule, b.schedule, 4 * b.rounds), "skinny64_set_key schedule");
          ll_skinny64_ecb_encrypt(o1, in, (uint8_t*)&a); skinny64_ecb_encrypt(o2, in, &b); EXPECT(!memcmp(o1,o2,8), "skinny64_ecb_encrypt");
          ll_skinny64_ecb_decrypt(o1, in, (uint8_t*)&a); skinny64_ecb_decrypt(o2, in, &b); EXPECT(!memcmp(o1,o2,8), "skinny64_ecb_decrypt");
          ll__skinny64_parallel_encrypt_vec128(o1, in, (uint8_t*)&b); _skinny64_parallel_encrypt_vec128(o2, in, &b); EXPECT(!memcmp(o1,o2,64), "skinny64 parallel encrypt vec128");
          ll__skinny64_parallel_decrypt_vec128(o1, in, (uint8_t*)&b); _skinny64_parallel_decrypt_vec128(o2, in, &b); EXPECT(!memcmp(o1,o2,64), "skinny64 parallel decrypt vec128");
          Skinny64TweakedKey_t ta, tb; unsigned tl = 1 + rand() % 8; memset(&ta,0,sizeof ta); memset(&tb,0,sizeof tb);
          EXPECT(ll_skinny64_set_tweaked_key((uint8_t*)&ta, key, 8 + 8 * (it & 1)) == 1 && skinny64_set_tweaked_key(&tb, key, 8 + 8 * (it & 1)) == 1, "skinny64_set_tweaked_key");
          EXPECT(ll_skinny64_set_tweak((uint8_t*)&ta, tw, tl) == 1 && skinny64_set_tweak(&tb, tw, tl) == 1, "skinny64_set_tweak");
          EXPECT(!memcmp(ta.tweak, tb.tweak, 8) && !memcmp(ta.ks.schedule, tb.ks.schedule, 4 * tb.ks.rounds), "skinny64 tweaked schedule"); }
        { MantisKey_t a, b; unsigned r = 5 + rand() % 4; int mode = rand() & 1; memset(&a,0,sizeof a); memset(&b,0,sizeof b);
          EXPECT(ll_mantis_set_key((uint8_t*)&a, key, 16, r, (uint32_t)mode) == 1 && mantis_set_key(&b, key, 16, r, mode) == 1, "mantis_set_key");
          EXPECT(ll_mantis_set_tweak((uint8_t*)&a, tw, 8) == 1 && mantis_set_tweak(&b, tw, 8) == 1, "mantis_set_tweak");
          if (it & 1) { ll_mantis_swap_modes((uint8_t*)&a); mantis_swap_modes(&b); }
          EXPECT(!memcmp(&a, &b, sizeof a), "mantis schedule");
          ll_mantis_ecb_crypt(o1, in, (uint8_t*)&a); mantis_ecb_crypt(o2, in, &b); EXPECT(!memcmp(o1,o2,8), "mantis_ecb_crypt");
          ll_mantis_ecb_crypt_tweaked(o1, in, tw+8, (uint8_t*)&a); mantis_ecb_crypt_tweaked(o2, in, tw+8, &b); EXPECT(!memcmp(o1,o2,8), "mantis_ecb_crypt_tweaked");
          ll__mantis_parallel_crypt_vec128(o1, in, tw, (uint8_t*)&b); _mantis_parallel_crypt_vec128(o2, in, tw, &b); EXPECT(!memcmp(o1,o2,64), "mantis parallel crypt vec128"); }
        ctr_session("skinny128 ctr vec128 session", ll__skinny128_ctr_vec128, 0, 16, &_skinny128_ctr_vec128, 48);
        ctr_session("skinny128 ctr vec256 session", ll__skinny128_ctr_vec256, 0, 16, &_skinny128_ctr_vec256, 48);
        ctr_session("skinny64 ctr vec128 session", ll__skinny64_ctr_vec128, 0, 8, &_skinny64_ctr_vec128, 24);
        ctr_session("mantis ctr vec128 session", ll__mantis_ctr_vec128, 1, 8, &_mantis_ctr_vec128, 16);
    }
    printf(bad ? "LL-DIFF-FAIL %d of %ld\n" : "LL-DIFF-OK %d mismatches in %ld comparisons\n", bad, cases);
    return bad != 0;
}
