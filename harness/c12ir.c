/* C12 compiler slice: clang IR (any -O level) of the scalar cipher files, translated by ll2c, against the specification models */
#include "vh.h"
#ifdef MANTIS
#include "mantis-cipher.h"
#include "ref_mantis.h"
uint32_t ll_mantis_set_key(uint8_t *, uint8_t *, uint32_t, uint32_t, uint32_t); uint32_t ll_mantis_set_tweak(uint8_t *, uint8_t *, uint32_t); void ll_mantis_ecb_crypt(uint8_t *, uint8_t *, uint8_t *);
uint8_t sym_key[16], sym_tw[8], sym_in[8];
void harness(void)
{
    static MantisKey_t ks; uint8_t out[8], exp[8];
    HARNESS_BEGIN();
    SYM_U8A(sym_key); SYM_U8A(sym_tw); SYM_U8A(sym_in);
    CHECK(ll_mantis_set_key((uint8_t *)&ks, sym_key, 16, R, MODE) == 1, "key accepted");
    CHECK(ll_mantis_set_tweak((uint8_t *)&ks, sym_tw, 8) == 1, "tweak accepted");
    ll_mantis_ecb_crypt(out, sym_in, (uint8_t *)&ks);
    ref_mantis(exp, sym_in, sym_key, sym_tw, R, MODE == 0);
    CHECK_BYTES_EQ(out, exp, 8, "compiled code at this optimisation level equals the specification");
    WITNESS_POINT();
}
#else
#define NO_CIPHER_INCLUDE
#include "cipher_sel.h"
#include "ref_skinny.h"
uint32_t ll_skinny128_set_key(uint8_t *, uint8_t *, uint32_t); void ll_skinny128_ecb_encrypt(uint8_t *, uint8_t *, uint8_t *); void ll_skinny128_ecb_decrypt(uint8_t *, uint8_t *, uint8_t *);
uint32_t ll_skinny64_set_key(uint8_t *, uint8_t *, uint32_t); void ll_skinny64_ecb_encrypt(uint8_t *, uint8_t *, uint8_t *); void ll_skinny64_ecb_decrypt(uint8_t *, uint8_t *, uint8_t *);
uint8_t sym_key[KEYLEN], sym_in[BLK];
void harness(void)
{
    static KEY_T ks; uint8_t out[BLK], exp[BLK];
    HARNESS_BEGIN();
    SYM_U8A(sym_key); SYM_U8A(sym_in);
#if CB == 8
    CHECK(ll_skinny128_set_key((uint8_t *)&ks, sym_key, KEYLEN) == 1, "key accepted");
    if (DIR == 0) ll_skinny128_ecb_encrypt(out, sym_in, (uint8_t *)&ks); else ll_skinny128_ecb_decrypt(out, sym_in, (uint8_t *)&ks);
#else
    CHECK(ll_skinny64_set_key((uint8_t *)&ks, sym_key, KEYLEN) == 1, "key accepted");
    if (DIR == 0) ll_skinny64_ecb_encrypt(out, sym_in, (uint8_t *)&ks); else ll_skinny64_ecb_decrypt(out, sym_in, (uint8_t *)&ks);
#endif
    if (DIR == 0) ref_skinny_encrypt(CB, exp, sym_in, sym_key, KEYLEN / BLK, 0); else ref_skinny_decrypt(CB, exp, sym_in, sym_key, KEYLEN / BLK, 0);
    CHECK_BYTES_EQ(out, exp, BLK, "compiled code at this optimisation level equals the specification");
    WITNESS_POINT();
}
#endif
#include "vh_end.h"
