/* engine canary 2: layout of a struct with a vector member (gcc/clang align it to 16) */
#include <stdint.h>
#include <stddef.h>
typedef uint32_t v4 __attribute__((vector_size(16)));
struct s { uint8_t pad[472]; v4 counter[4]; unsigned offset; };
void harness(void) { __CPROVER_assert(offsetof(struct s, counter) == 480, "vector member is 16-byte aligned as in the x86-64 ABI"); }
