/* engine canary 1: '>>' on GCC vector types (CBMC 6.11 mis-models it; the vector back ends therefore go through clang IR) */
#include <stdint.h>
typedef uint32_t v4 __attribute__((vector_size(16)));
uint32_t nondet_u32(void);
void harness(void) { v4 x = { nondet_u32(), nondet_u32(), nondet_u32(), nondet_u32() }; v4 y = x >> 2; __CPROVER_assert(y[1] == (x[1] >> 2), "vector >> is element-wise"); }
