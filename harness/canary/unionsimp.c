/* engine canary 3: write through a non-literal index into one union member, read through another member */
#include <stdint.h>
typedef union { uint32_t row[4]; uint64_t lrow[2]; } cells;
uint32_t nondet_u32(void); unsigned nondet_uint(void);
void harness(void) { cells u; u.row[0] = 0; u.row[1] = 0; u.row[2] = 0; u.row[3] = 0; unsigned i = nondet_uint(); __CPROVER_assume(i == 4); uint32_t w = nondet_u32(); u.row[i / 4] = w; __CPROVER_assert((uint32_t)u.lrow[0] == w, "union write through row[] is seen through lrow[]"); }
