// c19_shim.cpp - one translation unit holding the portable C++ path of the Arduino port (the real sources of
// /repo/arduino/libraries/Skinny are #included unchanged) plus extern "C" entry points with plain signatures, so that
// clang++ IR of the real classes can be driven from a C harness.  __AVR__ is not defined: the inline-assembly path is
// outside reach, as the property says.
#include "Crypto.cpp"
#include "BlockCipher.cpp"
#include "Cipher.cpp"
#include "Skinny128.cpp"
#include "Skinny64.cpp"
#include "Mantis8.cpp"
#include "CTR.cpp"
inline void *operator new(size_t, void *p) noexcept { return p; }
#define WRAP_BLOCK(K) \
    extern "C" void c19_##K##_init(void *m) { new (m) K(); } \
    extern "C" unsigned c19_##K##_size(void) { return (unsigned)sizeof(K); } \
    extern "C" unsigned c19_##K##_setKey(void *m, const uint8_t *k, unsigned n) { return ((K *)m)->setKey(k, n) ? 1u : 0u; } \
    extern "C" void c19_##K##_encryptBlock(void *m, uint8_t *o, const uint8_t *i) { ((K *)m)->encryptBlock(o, i); } \
    extern "C" void c19_##K##_decryptBlock(void *m, uint8_t *o, const uint8_t *i) { ((K *)m)->decryptBlock(o, i); } \
    extern "C" void c19_##K##_clear(void *m) { ((K *)m)->clear(); } \
    extern "C" unsigned c19_##K##_keySize(void *m) { return (unsigned)((K *)m)->keySize(); } \
    extern "C" unsigned c19_##K##_blockSize(void *m) { return (unsigned)((K *)m)->blockSize(); }
#define WRAP_TWEAK(K) \
    extern "C" unsigned c19_##K##_setTweak(void *m, const uint8_t *t, unsigned n) { return ((K *)m)->setTweak(t, n) ? 1u : 0u; }
WRAP_BLOCK(Skinny128_128) WRAP_BLOCK(Skinny128_256) WRAP_BLOCK(Skinny128_384)
WRAP_BLOCK(Skinny128_256_Tweaked) WRAP_TWEAK(Skinny128_256_Tweaked) WRAP_BLOCK(Skinny128_384_Tweaked) WRAP_TWEAK(Skinny128_384_Tweaked)
WRAP_BLOCK(Skinny64_64) WRAP_BLOCK(Skinny64_128) WRAP_BLOCK(Skinny64_192)
WRAP_BLOCK(Skinny64_128_Tweaked) WRAP_TWEAK(Skinny64_128_Tweaked) WRAP_BLOCK(Skinny64_192_Tweaked) WRAP_TWEAK(Skinny64_192_Tweaked)
WRAP_BLOCK(Mantis8) WRAP_TWEAK(Mantis8)
extern "C" void c19_Mantis8_swapModes(void *m) { ((Mantis8 *)m)->swapModes(); }
#define WRAP_CTR(K) \
    extern "C" void c19_CTR_##K##_init(void *m) { new (m) CTR<K>(); } \
    extern "C" unsigned c19_CTR_##K##_size(void) { return (unsigned)sizeof(CTR<K>); } \
    extern "C" unsigned c19_CTR_##K##_setKey(void *m, const uint8_t *k, unsigned n) { return ((CTR<K> *)m)->setKey(k, n) ? 1u : 0u; } \
    extern "C" unsigned c19_CTR_##K##_setIV(void *m, const uint8_t *k, unsigned n) { return ((CTR<K> *)m)->setIV(k, n) ? 1u : 0u; } \
    extern "C" unsigned c19_CTR_##K##_setCounterSize(void *m, unsigned n) { return ((CTR<K> *)m)->setCounterSize(n) ? 1u : 0u; } \
    extern "C" void c19_CTR_##K##_encrypt(void *m, uint8_t *o, const uint8_t *i, unsigned n) { ((CTR<K> *)m)->encrypt(o, i, n); } \
    extern "C" void c19_CTR_##K##_clear(void *m) { ((CTR<K> *)m)->clear(); }
WRAP_CTR(Skinny128_128) WRAP_CTR(Skinny128_256) WRAP_CTR(Skinny128_384)

// A trivial 16-byte block cipher (one xor layer), so that the glue of CTRCommon can be driven over requests of thousands of
// bytes at no cost for the cipher itself: the wrapper must not care which BlockCipher it is given.
class VhXor16 : public BlockCipher
{
public:
    VhXor16() { for (int i = 0; i < 16; i++) k[i] = 0; }
    virtual ~VhXor16() {}
    size_t blockSize() const { return 16; }
    size_t keySize() const { return 16; }
    bool setKey(const uint8_t *key, size_t len) { if (len != 16) return false; for (int i = 0; i < 16; i++) k[i] = key[i]; return true; }
    void encryptBlock(uint8_t *output, const uint8_t *input) { for (int i = 0; i < 16; i++) output[i] = (uint8_t)(input[i] ^ k[i] ^ (uint8_t)(i * 17 + 3)); }
    void decryptBlock(uint8_t *output, const uint8_t *input) { encryptBlock(output, input); }
    void clear() { for (int i = 0; i < 16; i++) k[i] = 0; }
private:
    uint8_t k[16];
};
WRAP_CTR(VhXor16)
