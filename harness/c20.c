/* C20 - example tools.  The real main() of examples/skinny-ctr.c / skinny-tweak.c / skinny-ecb.c and the real
 * examples/options.c are executed symbolically.  Environment models (each is part of the claim): stdio over one regular
 * input file of length FLEN with arbitrary content and one output file; getopt delivering an arbitrary option sequence;
 * the library API replaced by specification stubs that record what the tool asked for (what the real functions do with
 * those requests is C04/C05/C07/C10).
 *   TOOL 1 skinny-ctr, 2 skinny-tweak, 3 skinny-ecb
 *   OB_MAIN (FLEN, BS 8|16)     : glue of main() with parse_options stubbed to an arbitrary *valid* outcome or a failure
 *   OB_OPTS (NOPT, ARGLEN)      : the real parse_options on an arbitrary sequence of NOPT options */
#include "vh.h"
#include <stdio.h>
#include "skinny128-cipher.h"
#include "skinny64-cipher.h"
#include "skinny128-parallel.h"
#include "skinny64-parallel.h"
#include "options.h"
#ifndef FLEN
#define FLEN 0
#endif
#define MAXL (FLEN + 1)

/* ---------------- stdio model ---------------- */
uint8_t sym_file[MAXL];
static size_t in_pos; static int in_eof; static uint8_t file_out[MAXL + 16]; static size_t out_len; static int out_created, in_open, out_open;
static FILE fin_obj, fout_obj;
FILE *fopen(const char *name, const char *mode) { (void)name; if (mode[0] == 'r') { in_pos = 0; in_eof = 0; in_open = 1; return &fin_obj; } out_created = 1; out_len = 0; out_open = 1; return &fout_obj; }
size_t fread(void *p, size_t sz, size_t n, FILE *f)
{
    (void)f; size_t want = sz * n, rem = FLEN - in_pos, k = want < rem ? want : rem;
    for (size_t i = 0; i < k; i++) ((uint8_t *)p)[i] = sym_file[in_pos + i];
    in_pos += k; if (k < want) in_eof = 1; return sz ? k / sz : 0;
}
int feof(FILE *f) { (void)f; return in_eof; }
size_t fwrite(const void *p, size_t sz, size_t n, FILE *f)
{
    (void)f; size_t k = sz * n; __CPROVER_assert(out_len + k <= MAXL + 15, "the tool never writes more than it read");
    for (size_t i = 0; i < k; i++) file_out[out_len + i] = ((const uint8_t *)p)[i];
    out_len += k; return n;
}
int fclose(FILE *f) { if (f == &fin_obj) in_open = 0; else out_open = 0; return 0; }
void perror(const char *s) { (void)s; }
int fprintf(FILE *f, const char *fmt, ...) { (void)f; (void)fmt; return 0; }

#if defined(OB_MAIN)
/* ---------------- option outcome: arbitrary but as parse_options documents it ---------------- */
char *input_filename, *output_filename; unsigned block_size; uint8_t key[MAX_KEY_SIZE]; unsigned key_size; uint8_t tweak[MAX_TWEAK_SIZE]; unsigned tweak_size; int encrypt;
uint8_t sym_optok, sym_key[MAX_KEY_SIZE], sym_tweak[MAX_TWEAK_SIZE], sym_enc; unsigned sym_ksize, sym_tsize;
static int flags_seen = -1;
int parse_options(int argc, char *argv[], int flags)
{
    (void)argc; (void)argv; flags_seen = flags;
    /* assigned on both outcomes so that the block size stays a constant for the symbolic execution after the join */
    block_size = BS; memcpy(key, sym_key, sizeof key); memcpy(tweak, sym_tweak, sizeof tweak);
    key_size = sym_ksize; tweak_size = sym_tsize; encrypt = (flags & OPT_DECRYPT) ? (sym_enc & 1) : 1;
    input_filename = "in"; output_filename = "out";
    return (sym_optok & 1) ? 1 : 0;
}
/* ---------------- specification stubs of the library API ---------------- */
static uint8_t T0[MAX_TWEAK_SIZE];                    /* the tweak / counter the user gave */
uint8_t sym_pad[MAXL + 16];                          /* keystream (CTR) / per-position mask standing for the keyed permutation */
static size_t ks_pos; static int keyed, counter_set, inited64, inited128, cleaned64, cleaned128;
static unsigned n_blocks; static int bad_tweak, bad_dir, bad_req;
static uint8_t cur_tweak[MAX_TWEAK_SIZE]; static unsigned cur_tlen;
#define WANT(c, what) do { if (!(c)) bad_req = 1; __CPROVER_assert((c), what); } while (0)
int skinny128_ctr_init(Skinny128CTR_t *c) { (void)c; inited128 = 1; return 1; } int skinny64_ctr_init(Skinny64CTR_t *c) { (void)c; inited64 = 1; return 1; }
void skinny128_ctr_cleanup(Skinny128CTR_t *c) { (void)c; cleaned128 = 1; } void skinny64_ctr_cleanup(Skinny64CTR_t *c) { (void)c; cleaned64 = 1; }
static int ctr_key(unsigned bs, const void *k, unsigned n) { WANT(block_size == bs && k == key && n == key_size, "the key is passed to the library as given, to the cipher of the chosen block size"); keyed = 1; return 1; }
int skinny128_ctr_set_key(Skinny128CTR_t *c, const void *k, unsigned n) { (void)c; return ctr_key(16, k, n); }
int skinny64_ctr_set_key(Skinny64CTR_t *c, const void *k, unsigned n) { (void)c; return ctr_key(8, k, n); }
static int ctr_cnt(unsigned bs, const void *k, unsigned n) { WANT(block_size == bs && k == tweak && n == tweak_size && keyed, "the counter is passed as given, after the key"); counter_set = 1; ks_pos = 0; return 1; }
int skinny128_ctr_set_counter(Skinny128CTR_t *c, const void *k, unsigned n) { (void)c; return ctr_cnt(16, k, n); }
int skinny64_ctr_set_counter(Skinny64CTR_t *c, const void *k, unsigned n) { (void)c; return ctr_cnt(8, k, n); }
static int ctr_enc(unsigned bs, void *o, const void *i, size_t n)
{
    WANT(block_size == bs && keyed && counter_set, "data only after key and counter, on the cipher of the chosen block size");
    for (size_t j = 0; j < n; j++) ((uint8_t *)o)[j] = ((const uint8_t *)i)[j] ^ sym_pad[ks_pos + j];     /* position-indexed keystream: what C05 establishes */
    ks_pos += n; return 1;
}
int skinny128_ctr_encrypt(void *o, const void *i, size_t n, Skinny128CTR_t *c) { (void)c; return ctr_enc(16, o, i, n); }
int skinny64_ctr_encrypt(void *o, const void *i, size_t n, Skinny64CTR_t *c) { (void)c; return ctr_enc(8, o, i, n); }
/* tweakable single-block API (skinny-tweak) */
static int tk_key(unsigned bs, const void *k, unsigned n) { WANT(block_size == bs && k == key && n == key_size, "the key is passed as given"); keyed = 1; memset(cur_tweak, 0, sizeof cur_tweak); cur_tlen = bs; return 1; }
int skinny128_set_tweaked_key(Skinny128TweakedKey_t *s, const void *k, unsigned n) { (void)s; return tk_key(16, k, n); }
int skinny64_set_tweaked_key(Skinny64TweakedKey_t *s, const void *k, unsigned n) { (void)s; return tk_key(8, k, n); }
static int tk_tweak(unsigned bs, const void *t, unsigned n) { WANT(block_size == bs && keyed && n == tweak_size && n >= 1 && n <= bs, "tweak passed with the user's length, after the key"); memset(cur_tweak, 0, sizeof cur_tweak); memcpy(cur_tweak, t, n); cur_tlen = n; return 1; }
int skinny128_set_tweak(Skinny128TweakedKey_t *s, const void *t, unsigned n) { (void)s; return tk_tweak(16, t, n); }
int skinny64_set_tweak(Skinny64TweakedKey_t *s, const void *t, unsigned n) { (void)s; return tk_tweak(8, t, n); }
static void blk_crypt(unsigned bs, int enc, void *o, const void *i)
{
    /* expected tweak of block i: the user's tweak incremented i times as a big-endian integer of the given length (kept as a
       running value: comparing against T0 + i computed in one step made the solver prove 129 iterated increments equal to
       one addition, 12 minutes instead of one) */
    static uint8_t want[MAX_TWEAK_SIZE]; static int want_init;
    if (!want_init) { memset(want, 0, sizeof want); memcpy(want, T0, tweak_size); want_init = 1; }
    if (block_size != bs || !keyed) bad_req = 1;
    for (unsigned j = 0; j < MAX_TWEAK_SIZE; j++) if (cur_tweak[j] != want[j]) bad_tweak = 1;           /* block i under tweak T0 + i */
    vh_be_inc(want, (int)tweak_size);
    if (enc != (encrypt != 0)) bad_dir = 1;
    for (unsigned j = 0; j < bs; j++) ((uint8_t *)o)[j] = ((const uint8_t *)i)[j] ^ sym_pad[(size_t)n_blocks * bs + j];
    n_blocks++;
}
void skinny128_ecb_encrypt(void *o, const void *i, const Skinny128Key_t *k) { (void)k; blk_crypt(16, 1, o, i); }
void skinny128_ecb_decrypt(void *o, const void *i, const Skinny128Key_t *k) { (void)k; blk_crypt(16, 0, o, i); }
void skinny64_ecb_encrypt(void *o, const void *i, const Skinny64Key_t *k) { (void)k; blk_crypt(8, 1, o, i); }
void skinny64_ecb_decrypt(void *o, const void *i, const Skinny64Key_t *k) { (void)k; blk_crypt(8, 0, o, i); }
/* parallel ECB API (skinny-ecb) */
int skinny128_parallel_ecb_init(Skinny128ParallelECB_t *e) { (void)e; inited128 = 1; return 1; } int skinny64_parallel_ecb_init(Skinny64ParallelECB_t *e) { (void)e; inited64 = 1; return 1; }
void skinny128_parallel_ecb_cleanup(Skinny128ParallelECB_t *e) { (void)e; cleaned128 = 1; } void skinny64_parallel_ecb_cleanup(Skinny64ParallelECB_t *e) { (void)e; cleaned64 = 1; }
int skinny128_parallel_ecb_set_key(Skinny128ParallelECB_t *e, const void *k, unsigned n) { (void)e; return ctr_key(16, k, n); }
int skinny64_parallel_ecb_set_key(Skinny64ParallelECB_t *e, const void *k, unsigned n) { (void)e; return ctr_key(8, k, n); }
static int par(unsigned bs, int enc, void *o, const void *i, size_t n)
{
    WANT(block_size == bs && keyed && n % bs == 0, "whole blocks only, after the key, on the chosen cipher");
    if (enc != (encrypt != 0)) bad_dir = 1;
    for (size_t j = 0; j < n; j++) ((uint8_t *)o)[j] = ((const uint8_t *)i)[j] ^ sym_pad[ks_pos + j];
    ks_pos += n; return 1;
}
int skinny128_parallel_ecb_encrypt(void *o, const void *i, size_t n, const Skinny128ParallelECB_t *e) { (void)e; return par(16, 1, o, i, n); }
int skinny128_parallel_ecb_decrypt(void *o, const void *i, size_t n, const Skinny128ParallelECB_t *e) { (void)e; return par(16, 0, o, i, n); }
int skinny64_parallel_ecb_encrypt(void *o, const void *i, size_t n, const Skinny64ParallelECB_t *e) { (void)e; return par(8, 1, o, i, n); }
int skinny64_parallel_ecb_decrypt(void *o, const void *i, size_t n, const Skinny64ParallelECB_t *e) { (void)e; return par(8, 0, o, i, n); }

#define main tool_main
#if TOOL == 1
#include "skinny-ctr.c"
#elif TOOL == 2
#include "skinny-tweak.c"
#else
#include "skinny-ecb.c"
#endif
#undef main

void harness(void)
{
    HARNESS_BEGIN();
    SYM_U8A(sym_file); SYM_U8A(sym_pad); SYM_U8A(sym_key); SYM_U8A(sym_tweak); SYM_VAL(sym_optok); SYM_VAL(sym_enc); SYM_VAL(sym_ksize); SYM_VAL(sym_tsize);
    /* what a successful parse_options guarantees (decided for the real function in OB_OPTS) */
    ASSUME(sym_ksize >= BS && sym_ksize <= (TOOL == 2 ? 2u : 3u) * BS);
#ifdef TSIZE
    sym_tsize = TSIZE;      /* the tweak length drives loops in increment_tweak(): enumerated by the plan */
#endif
    ASSUME(sym_tsize >= 1 && sym_tsize <= BS);
    memcpy(T0, sym_tweak, sizeof T0);
    char *argv[1] = {0};
    int rc = tool_main(0, argv);
    CHECK(flags_seen == (TOOL == 1 ? 0 : (TOOL == 2 ? (OPT_NEED_TWEAK | OPT_DECRYPT) : (OPT_NO_COUNTER | OPT_DECRYPT))), "the tool asks for its documented option set");
    if (!(sym_optok & 1)) {
        CHECK(rc != 0, "invalid options: the tool exits non-zero");
        CHECK(!out_created, "invalid options: no output is produced");
    } else {
        CHECK(rc == 0, "valid run exits 0");
        CHECK(!in_open && !out_open, "both files are closed");
        size_t whole = (TOOL == 1) ? (size_t)FLEN : ((size_t)FLEN / BS) * BS;
        CHECK(out_len == whole, "output length: same as the input (skinny-ctr) / all whole blocks, trailing partial block dropped (skinny-tweak, skinny-ecb)");
        for (size_t j = 0; j < whole; j++) CHECK(file_out[j] == (uint8_t)(sym_file[j] ^ sym_pad[j]), "every output byte is the library's processing of the input byte at the same stream position, whatever the 1024-byte chunking");
#if TOOL == 2
        CHECK(n_blocks == whole / BS, "one single-block call per whole block");
        CHECK(!bad_tweak, "block i is processed under the user's tweak plus i (big-endian, at the given length)");
#endif
        CHECK(!bad_dir, "-d selects decryption, default is encryption");
        CHECK(!bad_req, "every library call is made with the user's key/counter/tweak on the cipher of the chosen block size");
    }
    WITNESS_POINT();
}
#elif defined(OB_OPTS)
/* ---------------- the real parse_options under an arbitrary option sequence ---------------- */
#include <string.h>
char *optarg; int optind = 1;
uint8_t sym_optch[NOPT], sym_optarg[NOPT][ARGLEN + 1]; int sym_nfiles;
typedef struct { char ch; char arg[ARGLEN + 1]; } opt_t;
static opt_t sym_opts[NOPT];
static int opt_i;
int getopt(int argc, char *const argv[], const char *spec) { (void)argc; (void)argv; (void)spec; if (opt_i >= NOPT) { optind = 1 + 2 * NOPT; return -1; } optarg = sym_opts[opt_i].arg; return sym_opts[opt_i++].ch; }
#include "options.c"
/* independent reading of the documentation: hexadecimal text with optional ' ', ':' or '.' separators between bytes */
static int hexval(char c) { if (c >= '0' && c <= '9') return c - '0'; if (c >= 'a' && c <= 'f') return c - 'a' + 10; if (c >= 'A' && c <= 'F') return c - 'A' + 10; return -1; }
static int spec_hex(uint8_t *buf, unsigned max, const char *s)   /* -1 invalid, else number of bytes */
{
    unsigned n = 0; int half = -1;
    for (unsigned i = 0; s[i]; i++) {
        int v = hexval(s[i]);
        if (v < 0) { if ((s[i] == ' ' || s[i] == ':' || s[i] == '.')) { if (half >= 0) { /* separator after a single digit closes the byte */ if (n >= max) return -1; buf[n++] = (uint8_t)half; half = -1; } continue; } return -1; }
        if (half < 0) half = v; else { if (n >= max) return -1; buf[n++] = (uint8_t)(half * 16 + v); half = -1; }
    }
    return (int)n;
}
void harness(void)
{
    HARNESS_BEGIN();
    SYM_U8A(sym_optch); for (int i = 0; i < NOPT; i++) { SYM_U8A(sym_optarg[i]); } SYM_VAL(sym_nfiles);
    for (int i = 0; i < NOPT; i++) { sym_opts[i].ch = (char)sym_optch[i]; for (int j = 0; j <= ARGLEN; j++) sym_opts[i].arg[j] = (char)sym_optarg[i][j]; }
    for (int i = 0; i < NOPT; i++) { sym_opts[i].arg[ARGLEN] = 0; ASSUME(sym_opts[i].ch == 'b' || sym_opts[i].ch == 'k' || sym_opts[i].ch == 't' || sym_opts[i].ch == 'c' || sym_opts[i].ch == 'd' || sym_opts[i].ch == '?'); }
    ASSUME(sym_nfiles >= 0 && sym_nfiles <= 3);
    char *argv[1 + 2 * NOPT + 4]; char prog[] = "tool", f1[] = "in", f2[] = "out", f3[] = "x";
    argv[0] = prog; for (int i = 0; i < 2 * NOPT; i++) argv[1 + i] = prog;
    argv[1 + 2 * NOPT] = f1; argv[2 + 2 * NOPT] = f2; argv[3 + 2 * NOPT] = f3; argv[4 + 2 * NOPT] = 0;
    int argc = 1 + 2 * NOPT + sym_nfiles;
    int r = parse_options(argc, argv, FLAGS);
    /* the documented outcome, computed independently */
    unsigned bs = 16, ks = 0, ts = 0; int havekey = 0, bad = 0, enc = 1; uint8_t k2[MAX_KEY_SIZE], t2[MAX_TWEAK_SIZE]; memset(k2, 0, sizeof k2); memset(t2, 0, sizeof t2);
    for (int i = 0; i < NOPT && !bad; i++) {
        const char *a = sym_opts[i].arg;
        if (sym_opts[i].ch == 'b') { if (a[0] == '6' && a[1] == '4' && a[2] == 0) bs = 8; else if (a[0] == '1' && a[1] == '2' && a[2] == '8' && a[3] == 0) bs = 16; else bad = 1; }
        else if (sym_opts[i].ch == 'k') { int n = spec_hex(k2, sizeof k2, a); if (n <= 0) bad = 1; else { ks = (unsigned)n; havekey = 1; } }
        else if (sym_opts[i].ch == 't' || sym_opts[i].ch == 'c') { int n = spec_hex(t2, sizeof t2, a); if (n <= 0) bad = 1; else ts = (unsigned)n; }
        else if (sym_opts[i].ch == 'd') enc = 0;
        else bad = 1;
    }
    if (!bad && sym_nfiles < 2) bad = 1;
    if (!bad && !havekey) bad = 1;
    if (!bad) { unsigned maxk = ((FLAGS) & OPT_NEED_TWEAK) ? 2 * bs : 3 * bs; if (ks < bs || ks > maxk) bad = 1; }
    if (!bad && ts > bs) bad = 1;
    CHECK((r != 0) == !bad, "parse_options accepts exactly the documented option combinations (block size 64/128, key in range for the block size, counter/tweak no longer than a block, two file names)");
    if (r) {
        CHECK(block_size == bs && key_size == ks && encrypt == enc, "block size, key length and direction are what the options say");
        for (unsigned i = 0; i < ks; i++) CHECK(key[i] == k2[i], "key bytes are the hexadecimal text of -k");
        CHECK(tweak_size == (ts ? ts : bs), "counter/tweak length is the given one, or a whole zero block by default");
        for (unsigned i = 0; i < (ts ? ts : bs); i++) CHECK(tweak[i] == (ts ? t2[i] : 0), "counter/tweak bytes are the hexadecimal text of -c/-t (all-zero by default)");
        CHECK(input_filename == f1 && output_filename == f2, "file names are taken from the command line");
    }
    WITNESS_POINT();
}
#else
#error "no obligation"
#endif
#include "vh_end.h"
