/* C06 - back-end independence of CTR mode as a one-step bisimulation between the generic context (native code) and a
 * vector context (clang IR) of the same cipher.  Parameters: CIPHER, VEC, NR, and
 *   OB_ENC    with A (index 0..L-1 of the current block inside the vector batch, or -1 = nothing buffered), W (bytes of the
 *             current block already used, 0..BLK-1), N (bytes of this call)
 *   OB_SETCTR with LEN | NULLCTR          (from arbitrary, unrelated states)
 *   OB_REKEY  with OP (1 set_key, 2 set_tweaked_key, 3 set_tweak), A, W, KLEN   - A=-1,W=0 is the "nothing buffered" case
 *   OB_INIT
 * Relation R(g, v): equal key schedule and tweak; equal stream position (the counter value whose encryption provides the next
 * keystream byte, and the offset inside that block); equal unused bytes of the current block. */
#include "ctr_model.h"
#define L LANES
#define B (BLK * L)
#ifdef OB_INIT
uint8_t *ll_skinny_calloc(uint64_t size, uint8_t *base_ptr) { uint8_t *p = calloc(1, size + 31); if (!p) return 0; *(void **)base_ptr = p; return p; }
#endif

uint8_t sym_C[BLK], sym_in[2 * B + BLK + 2], sym_key[48], sym_tw[BLK], sym_cnt[BLK + 1], sym_stale_g[BLK], sym_stale_v[B];
static GCTX_T gctx; static uint8_t vctx[V_SIZE] __attribute__((aligned(32)));
static HANDLE_T gh; static vhandle_t vh;

static void ctr_plus(uint8_t *out, const uint8_t *c, int m)
{
    if (out != c) memcpy(out, c, BLK);
    if (m >= 0) vh_be_add(out, BLK, (unsigned)m); else for (int k = 0; k < -m; k++) vh_be_dec(out, BLK);
}
/* stream position of each context: counter of the block that provides the next byte, and the offset inside it */
static void pos_g(uint8_t *cblk, unsigned *within)
{
    if (gctx.offset >= BLK) { memcpy(cblk, gctx.counter, BLK); *within = 0; }
    else { ctr_plus(cblk, gctx.counter, -1); *within = gctx.offset; }
}
static void pos_v(uint8_t *cblk, unsigned *within)
{
    uint8_t lane0[BLK]; v_get_lane(vctx, 0, lane0); unsigned ov = V_OFF(vctx);
    if (ov >= B) { memcpy(cblk, lane0, BLK); *within = 0; }
    else { ctr_plus(cblk, lane0, (int)(ov / BLK) - L); *within = ov % BLK; }
}
#define CHECK_RELATED() do { uint8_t cg_[BLK], cv_[BLK]; unsigned wg_, wv_; pos_g(cg_, &wg_); pos_v(cv_, &wv_); \
    CHECK(wg_ == wv_, "both back ends are at the same offset inside the current keystream block"); \
    for (int i_ = 0; i_ < BLK; i_++) CHECK(cg_[i_] == cv_[i_], "both back ends are at the same counter value: the rest of the stream is the same"); \
    if (wg_ != 0 && wg_ == wv_) for (unsigned k_ = wg_; k_ < BLK; k_++) CHECK(gctx.ecounter[k_] == vctx[V_ECOUNTER + (V_OFF(vctx) / BLK) * BLK + k_], "the unused keystream bytes of the current block are the same"); \
    for (int l_ = 1; l_ < L; l_++) { uint8_t a_[BLK], b_[BLK]; v_get_lane(vctx, 0, a_); ctr_plus(a_, a_, l_); v_get_lane(vctx, l_, b_); for (int i_ = 0; i_ < BLK; i_++) CHECK(a_[i_] == b_[i_], "vector lanes stay staggered c, c+1, ..."); } \
  } while (0)
static void check_same_schedule(void)
{
    const KS_T *a = &KS_OF(&gctx), *b = (const KS_T *)vctx;
#if CIPHER == 3
    CHECK(a->k0.llrow == b->k0.llrow && a->k0prime.llrow == b->k0prime.llrow && a->k1.llrow == b->k1.llrow && a->tweak.llrow == b->tweak.llrow && a->rounds == b->rounds, "both back ends hold the same Mantis schedule");
#else
    CHECK(a->ks.rounds == b->ks.rounds, "both back ends hold the same round count");
    for (unsigned r = 0; r < MAXR; r++) if (r < a->ks.rounds) CHECK(a->ks.schedule[r].row[0] == b->ks.schedule[r].row[0] && a->ks.schedule[r].row[1] == b->ks.schedule[r].row[1], "both back ends hold the same key schedule");
    for (int i = 0; i < BLK; i++) CHECK(a->tweak[i] == b->tweak[i], "both back ends hold the same tweak");
#endif
}
/* build R-related states at position (C, W) where block C is the A-th block of the vector batch (A = -1: nothing buffered) */
static void make_related(const KS_T *ks, int a, unsigned w)
{
    uint8_t e[BLK], c[BLK];
    { GCTX_T nd; gctx = nd; } { uint8_t nd[V_SIZE]; memcpy(vctx, nd, V_SIZE); }
    KS_OF(&gctx) = *ks; memcpy(vctx, ks, sizeof *ks);
    if (a < 0) {            /* nothing buffered in either */
        memcpy(gctx.counter, sym_C, BLK); gctx.offset = BLK;
        for (int j = 0; j < L; j++) { ctr_plus(c, sym_C, j); v_set_lane(vctx, j, c); }
        V_OFF(vctx) = B;
        return;
    }
    /* vector: batch started at C - a; lanes already advanced to the next batch */
    for (int j = 0; j < L; j++) { ctr_plus(c, sym_C, j - a + L); v_set_lane(vctx, j, c); }
    V_OFF(vctx) = (unsigned)a * BLK + w;
    for (int b = 0; b < L; b++) {
        if (b >= a) { ctr_plus(c, sym_C, b - a); oracle_E(e, c, ks); }
        for (int i = 0; i < BLK; i++) { unsigned p = (unsigned)(b * BLK + i); vctx[V_ECOUNTER + p] = (p >= V_OFF(vctx)) ? e[i] : sym_stale_v[p]; }
    }
    /* generic: either inside block C (w > 0) or fresh at C (w == 0) */
    if (w > 0) { ctr_plus(gctx.counter, sym_C, 1); gctx.offset = w; oracle_E(e, sym_C, ks); for (int i = 0; i < BLK; i++) gctx.ecounter[i] = ((unsigned)i >= w) ? e[i] : sym_stale_g[i]; }
    else { memcpy(gctx.counter, sym_C, BLK); gctx.offset = BLK; }
}

void harness(void)
{
    static KS_T ks;
    HARNESS_BEGIN();
    SYM_U8A(sym_C); SYM_U8A(sym_in); SYM_U8A(sym_key); SYM_U8A(sym_tw); SYM_U8A(sym_cnt); SYM_U8A(sym_stale_g); SYM_U8A(sym_stale_v);
    arbitrary_schedule(&ks);
    gh.vtable = &GEN_VT; gh.ctx = &gctx; vh.vtable = (const void *)1; vh.ctx = vctx;
#if defined(OB_ENC)
    make_related(&ks, A, W);
    uint8_t *in = malloc(N ? N : 1), *og = malloc(N ? N : 1), *ov = malloc(N ? N : 1); ASSUME(in && og && ov);
    memcpy(in, sym_in, N);
    int rg = PUB(encrypt)(og, in, N, &gh); int rv = (int)VF(encrypt)(ov, in, N, (uint8_t *)&vh);
    CHECK(rg == 1 && rv == 1, "both back ends accept the call");
    for (unsigned k = 0; k < N; k++) CHECK(og[k] == ov[k], "every output byte is the same whichever back end serves the object");
    CHECK_RELATED();
#elif defined(OB_SETCTR)
    { GCTX_T nd; gctx = nd; } { uint8_t nd[V_SIZE]; memcpy(vctx, nd, V_SIZE); }
#ifdef NULLCTR
    uint8_t *cp = 0;
#else
    uint8_t *cp = malloc(LEN ? LEN : 1); ASSUME(cp != 0); memcpy(cp, sym_cnt, LEN);
#endif
    int rg = PUB(set_counter)(&gh, cp, LEN); int rv = (int)VF(set_counter)((uint8_t *)&vh, cp, LEN);
    CHECK(rg == rv, "set_counter returns the same on both back ends");
    if (rg) CHECK_RELATED();
#elif defined(OB_REKEY)
    make_related(&ks, A, W);
    int rg, rv;
#if OP == 1
#if CIPHER == 3
    rg = PUB(set_key)(&gh, sym_key, KLEN, 5 + (KLEN & 3)); rv = (int)VF(set_key)((uint8_t *)&vh, sym_key, KLEN, 5 + (KLEN & 3));
#else
    rg = PUB(set_key)(&gh, sym_key, KLEN); rv = (int)VF(set_key)((uint8_t *)&vh, sym_key, KLEN);
#endif
#elif OP == 2
    rg = PUB(set_tweaked_key)(&gh, sym_key, KLEN); rv = (int)VF(set_tweaked_key)((uint8_t *)&vh, sym_key, KLEN);
#else
    rg = PUB(set_tweak)(&gh, sym_tw, KLEN); rv = (int)VF(set_tweak)((uint8_t *)&vh, sym_tw, KLEN);
#endif
    CHECK(rg == rv, "the call returns the same on both back ends");
    check_same_schedule();
    CHECK_RELATED();
#elif defined(OB_INIT)
    gh.ctx = 0; vh.ctx = 0;
    extern int PUB(init)(HANDLE_T *);
    int rg = GEN(init)(&gh); int rv = (int)VF(init)((uint8_t *)&vh);
    CHECK(rg == 1 && rv == 1, "init succeeds on both back ends");
    gctx = *(GCTX_T *)gh.ctx; memcpy(vctx, vh.ctx, V_SIZE);
    CHECK_RELATED();
#else
#error "no obligation"
#endif
    WITNESS_POINT();
}
#include "vh_end.h"
