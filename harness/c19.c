/* C19 - the Arduino port computes what the C library computes.  The classes come from clang++ IR of the real sources
 * (c19_shim.cpp #includes them) translated by ll2c; the C library is the real code, native.
 * Parameters: K (class name), FAMILY (128|64|8 for Mantis8), KEYLEN, TWEAKED, and
 *   OB_E2E (DIR) | OB_BADKEY (BADLEN) | OB_TWSEQ (SEQ 1: T1,T2 ; 2: T1,NULL ; 3: T1,NULL,T2 ; DIR) | OB_MANTIS (WHAT) | OB_CTR (N1, N2) */
#include "vh.h"
#include <stdlib.h>
#if FAMILY == 128
#include "skinny128-cipher.c"
#define BLK 16
#define CKEY_T Skinny128Key_t
#define CTKEY_T Skinny128TweakedKey_t
#define C_SET_KEY skinny128_set_key
#define C_SET_TKEY skinny128_set_tweaked_key
#define C_SET_TWEAK skinny128_set_tweak
#define C_ENC skinny128_ecb_encrypt
#define C_DEC skinny128_ecb_decrypt
#elif FAMILY == 64
#include "skinny64-cipher.c"
#define BLK 8
#define CKEY_T Skinny64Key_t
#define CTKEY_T Skinny64TweakedKey_t
#define C_SET_KEY skinny64_set_key
#define C_SET_TKEY skinny64_set_tweaked_key
#define C_SET_TWEAK skinny64_set_tweak
#define C_ENC skinny64_ecb_encrypt
#define C_DEC skinny64_ecb_decrypt
#else
#include "mantis-cipher.c"
#define BLK 8
#endif
void ll__ZdlPv(uint8_t *p) { (void)p; }                     /* operator delete: never reached (no heap objects) */
void ll___cxa_pure_virtual(void) { __CPROVER_assert(0, "pure virtual call"); }
void ll2c_init_c19_shim_cpp(void);
#define CAT2(a,b,c) a##b##c
#define CAT(a,b,c) CAT2(a,b,c)
#define A(fn) CAT(ll_c19_, K, _##fn)
void A(init)(uint8_t *); uint32_t A(size)(void); uint32_t A(setKey)(uint8_t *, uint8_t *, uint32_t);
void A(encryptBlock)(uint8_t *, uint8_t *, uint8_t *); void A(decryptBlock)(uint8_t *, uint8_t *, uint8_t *); void A(clear)(uint8_t *);
uint32_t A(keySize)(uint8_t *); uint32_t A(blockSize)(uint8_t *);
uint32_t A(setTweak)(uint8_t *, uint8_t *, uint32_t);
void ll_c19_Mantis8_swapModes(uint8_t *);
#if defined(OB_CTR) || defined(OB_BIGCTR)
#define AC(fn) CAT(ll_c19_CTR_, K, _##fn)
void AC(init)(uint8_t *); uint32_t AC(setKey)(uint8_t *, uint8_t *, uint32_t); uint32_t AC(setIV)(uint8_t *, uint8_t *, uint32_t);
uint32_t AC(setCounterSize)(uint8_t *, uint32_t); void AC(encrypt)(uint8_t *, uint8_t *, uint8_t *, uint32_t);
#endif

uint8_t sym_key[48], sym_in[64], sym_t1[16], sym_t2[16], sym_iv[16];
static uint8_t obj[1400] __attribute__((aligned(16)));

void harness(void)
{
    uint8_t out[64], exp[64];
    HARNESS_BEGIN();
    SYM_U8A(sym_key); SYM_U8A(sym_in); SYM_U8A(sym_t1); SYM_U8A(sym_t2); SYM_U8A(sym_iv);
    ll2c_init_c19_shim_cpp();
    { uint8_t nd[sizeof obj]; memcpy(obj, nd, sizeof obj); }          /* arbitrary memory before construction */
#if defined(OB_BIGCTR)
    /* CTRCommon glue over a request of NBIG bytes (hundreds of blocks) after a first call of N1 bytes, with a trivial block
       cipher: counters of the wrapper's loops must not overflow, every byte position gets its keystream byte */
    static uint8_t bin[NBIG + 64], bout[NBIG + 64]; uint8_t c[16], e[16];
    { uint8_t nd[sizeof bin]; memcpy(bin, nd, sizeof bin); memcpy(bout, nd, sizeof bout); }      /* data is arbitrary (not part of the replayed inputs) */
    memcpy(bin, sym_in, sizeof sym_in);
    AC(init)(obj);
    CHECK(AC(setKey)(obj, sym_key, 16) == 1, "setKey accepted"); CHECK(AC(setIV)(obj, sym_iv, 16) == 1, "setIV accepted");
    AC(encrypt)(obj, bout, bin, N1); AC(encrypt)(obj, bout + N1, bin + N1, NBIG);
    memcpy(c, sym_iv, 16);
    for (unsigned k = 0; k < N1 + NBIG; k++) {
        if (k % 16 == 0) { for (int i = 0; i < 16; i++) e[i] = (uint8_t)(c[i] ^ sym_key[i] ^ (uint8_t)(i * 17 + 3)); vh_be_inc(c, 16); }
        CHECK(bout[k] == (uint8_t)(bin[k] ^ e[k % 16]), "every byte of a large request gets the keystream byte of its position");
    }
#elif defined(OB_CTR)
    /* CTR<K>: key, 16-byte IV (every carry chain and the wrap-around are inside the quantifier), data in two calls */
    static CKEY_T ks; uint8_t c[16], e[16];
    AC(init)(obj);
    CHECK(AC(setKey)(obj, sym_key, KEYLEN) == 1, "setKey accepts the class's key size");
    CHECK(AC(setIV)(obj, sym_iv, 16) == 1, "setIV accepts a 16-byte IV");
#ifdef REKEY
    /* key change in mid-stream without a new IV: the C library (and Cipher::setKey's own documentation: "any temporary data
       that was being retained for encrypting partial blocks will be abandoned") continues with the next counter block under
       the new key */
    AC(encrypt)(obj, out, sym_in, N1);
    CHECK(AC(setKey)(obj, sym_t1, KEYLEN) == 1, "second key accepted");           /* sym_t1/sym_t2 double as the second key */
    AC(encrypt)(obj, out + N1, sym_in + N1, N2);
    { static CKEY_T ks2; uint8_t k2[48]; memcpy(k2, sym_t1, 16); memcpy(k2 + 16, sym_t2, 16); memcpy(k2 + 32, sym_t1, 16);
      CHECK(C_SET_KEY(&ks, sym_key, KEYLEN) == 1 && C_SET_KEY(&ks2, sym_t1, KEYLEN) == 1, "C library accepts the keys");
      memcpy(c, sym_iv, 16);
      for (unsigned k = 0; k < N1; k++) { if (k % 16 == 0) { C_ENC(e, c, &ks); vh_be_inc(c, 16); } CHECK(out[k] == (uint8_t)(sym_in[k] ^ e[k % 16]), "before the key change: E_K1(iv), ..."); }
      for (unsigned k = 0; k < N2; k++) { if (k % 16 == 0) { C_ENC(e, c, &ks2); vh_be_inc(c, 16); } CHECK(out[N1 + k] == (uint8_t)(sym_in[N1 + k] ^ e[k % 16]), "after a key change in mid-stream the wrapper continues with the next counter block under the new key, as the C library does (no keystream of the old key is used)"); } }
#else
    AC(encrypt)(obj, out, sym_in, N1); AC(encrypt)(obj, out + N1, sym_in + N1, N2);
    CHECK(C_SET_KEY(&ks, sym_key, KEYLEN) == 1, "C library accepts the key");
    memcpy(c, sym_iv, 16);
    for (unsigned k = 0; k < N1 + N2; k++) {
        if (k % 16 == 0) { C_ENC(e, c, &ks); vh_be_inc(c, 16); }
        CHECK(out[k] == (uint8_t)(sym_in[k] ^ e[k % 16]), "CTR<T> output equals input xor E(iv), E(iv+1), ... as the C library's CTR mode defines it, however the data is split");
    }
#endif
#elif defined(OB_MANTIS)
    static MantisKey_t ks;
    A(init)(obj);
    CHECK(A(setKey)(obj, sym_key, 16) == 1, "setKey accepts 16 bytes");
#if WHAT == 0       /* fresh key: zero tweak */
    CHECK(mantis_set_key(&ks, sym_key, 16, 8, MANTIS_ENCRYPT) == 1, "C key");
    A(encryptBlock)(obj, out, sym_in); mantis_ecb_crypt(exp, sym_in, &ks);
#elif WHAT == 1     /* tweak, encrypt */
    CHECK(A(setTweak)(obj, sym_t1, 8) == 1, "tweak accepted");
    CHECK(mantis_set_key(&ks, sym_key, 16, 8, MANTIS_ENCRYPT) == 1 && mantis_set_tweak(&ks, sym_t1, 8) == 1, "C key and tweak");
    A(encryptBlock)(obj, out, sym_in); mantis_ecb_crypt(exp, sym_in, &ks);
#elif WHAT == 2     /* tweak, swap modes: decrypts */
    CHECK(A(setTweak)(obj, sym_t1, 8) == 1, "tweak accepted"); ll_c19_Mantis8_swapModes(obj);
    CHECK(mantis_set_key(&ks, sym_key, 16, 8, MANTIS_DECRYPT) == 1 && mantis_set_tweak(&ks, sym_t1, 8) == 1, "C key and tweak");
    A(encryptBlock)(obj, out, sym_in); mantis_ecb_crypt(exp, sym_in, &ks);
#elif WHAT == 3     /* swap twice, null tweak after a tweak */
    CHECK(A(setTweak)(obj, sym_t1, 8) == 1, "tweak accepted"); ll_c19_Mantis8_swapModes(obj); ll_c19_Mantis8_swapModes(obj);
    CHECK(A(setTweak)(obj, 0, 8) == 1, "null tweak accepted");
    CHECK(mantis_set_key(&ks, sym_key, 16, 8, MANTIS_ENCRYPT) == 1, "C key");
    A(encryptBlock)(obj, out, sym_in); mantis_ecb_crypt(exp, sym_in, &ks);
#else               /* Mantis8::decryptBlock is documented to be the same operation as encryptBlock (the mode is chosen with
                       swapModes(), as in the C library where mantis_ecb_crypt serves both modes) */
    CHECK(A(setTweak)(obj, sym_t1, 8) == 1, "tweak accepted");
    CHECK(mantis_set_key(&ks, sym_key, 16, 8, MANTIS_ENCRYPT) == 1 && mantis_set_tweak(&ks, sym_t1, 8) == 1, "C key and tweak");
    A(decryptBlock)(obj, out, sym_in); mantis_ecb_crypt(exp, sym_in, &ks);
#endif
    CHECK_BYTES_EQ(out, exp, 8, "Mantis8 gives what the C library gives for rounds = 8");
#elif defined(OB_BADKEY)
    A(init)(obj);
    CHECK(A(setKey)(obj, sym_key, BADLEN) == 0, "a key of the wrong size is rejected");
    CHECK(A(keySize)(obj) == KEYLEN && A(blockSize)(obj) == BLK, "the class reports its key and block size");
#elif defined(OB_E2E) || defined(OB_TWSEQ)
    A(init)(obj);
    CHECK(A(setKey)(obj, sym_key, KEYLEN) == 1, "setKey accepts the class's key size");
#if TWEAKED
    static CTKEY_T tk;
    CHECK(C_SET_TKEY(&tk, sym_key, KEYLEN) == 1, "C library accepts the key");
#ifdef OB_TWSEQ
    CHECK(A(setTweak)(obj, sym_t1, BLK) == 1, "tweak accepted");
#if SEQ == 1
    CHECK(A(setTweak)(obj, sym_t2, BLK) == 1, "tweak accepted"); CHECK(C_SET_TWEAK(&tk, sym_t2, BLK) == 1, "C tweak");
#elif SEQ == 2
    CHECK(A(setTweak)(obj, 0, BLK) == 1, "null tweak accepted");                       /* C side: freshly keyed = zero tweak */
#elif SEQ == 3
    CHECK(A(setTweak)(obj, 0, BLK) == 1, "null tweak accepted"); CHECK(A(setTweak)(obj, sym_t2, BLK) == 1, "tweak accepted"); CHECK(C_SET_TWEAK(&tk, sym_t2, BLK) == 1, "C tweak");
#else
    CHECK(A(setTweak)(obj, sym_t2, BLK) == 1, "tweak accepted"); CHECK(A(setTweak)(obj, sym_iv, BLK) == 1, "tweak accepted"); CHECK(C_SET_TWEAK(&tk, sym_iv, BLK) == 1, "C tweak");   /* three different non-null tweaks */
#endif
#endif
#define CKS (&tk.ks)
#else
    static CKEY_T ks;
    CHECK(C_SET_KEY(&ks, sym_key, KEYLEN) == 1, "C library accepts the key");
#define CKS (&ks)
#endif
#if DIR == 0
    A(encryptBlock)(obj, out, sym_in); C_ENC(exp, sym_in, CKS);
#else
    A(decryptBlock)(obj, out, sym_in); C_DEC(exp, sym_in, CKS);
#endif
    CHECK_BYTES_EQ(out, exp, BLK, "the class gives exactly what the C library gives for the corresponding variant (only the key and the latest tweak matter)");
#else
#error "no obligation"
#endif
    WITNESS_POINT();
}
#include "vh_end.h"
