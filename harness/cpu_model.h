/* cpu_model.h - environment model for CPUID / XGETBV: an arbitrary x86 CPU and operating system.
 * The translated code reaches it through the inline-assembly mapping of ll2c (cpuid -> verif_cpuid with the
 * sub-leaf taken from ECX if the asm has an ECX input and from verif_garbage_ecx() otherwise, exactly what
 * the instruction does with whatever the register holds; xgetbv -> verif_xgetbv). */
#ifndef CPU_MODEL_H
#define CPU_MODEL_H
unsigned sym_max_leaf, sym_l1_ecx, sym_l1_edx, sym_l7_0_ebx, sym_l7_n_ebx, sym_xcr0, sym_ecx_garbage[4];
static unsigned cpu_garbage_uses, cpu_faults;
void verif_cpuid(unsigned leaf, unsigned sub, unsigned *a, unsigned *b, unsigned *c, unsigned *d)
{
    *a = *b = *c = *d = 0;
    if (leaf == 0) *a = sym_max_leaf;
    else if (leaf == 1) { *c = sym_l1_ecx; *d = sym_l1_edx; }
    else if (leaf == 7 && sym_max_leaf >= 7) { *b = (sub == 0) ? sym_l7_0_ebx : sym_l7_n_ebx; }
    else if (leaf == 7) { *b = sym_l7_n_ebx; }       /* leaf above the maximum: contents are not the feature flags */
}
unsigned verif_garbage_ecx(void) { unsigned v = sym_ecx_garbage[cpu_garbage_uses & 3]; cpu_garbage_uses++; return v; }
void verif_xgetbv(unsigned idx, unsigned *lo, unsigned *hi)
{
    if (!((sym_l1_ecx >> 27) & 1)) cpu_faults++;     /* XGETBV raises #UD unless the OS has set CR4.OSXSAVE */
    *lo = (idx == 0) ? sym_xcr0 : 0; *hi = 0;
}
static void cpu_model_init(void)
{
    SYM_VAL(sym_max_leaf); SYM_VAL(sym_l1_ecx); SYM_VAL(sym_l1_edx); SYM_VAL(sym_l7_0_ebx); SYM_VAL(sym_l7_n_ebx); SYM_VAL(sym_xcr0);
    SYM_U32A(sym_ecx_garbage);
    /* every x86-64 CPU has basic leaf 1; basic leaves end below 0x80000000, where the extended range starts
       (clang's <cpuid.h> returns the maximum leaf as a signed int) */
    ASSUME(sym_max_leaf >= 1 && sym_max_leaf < 0x80000000u);
}
/* Intel SDM vol. 1 ch. 14.3 / vol. 2 CPUID: when may SSE2 / AVX2 instructions be executed */
static int cpu_sse2_usable(void) { return (sym_l1_edx >> 26) & 1; }
static int cpu_avx2_usable(void)
{
    return sym_max_leaf >= 7 && ((sym_l7_0_ebx >> 5) & 1) && ((sym_l1_ecx >> 27) & 1) && ((sym_l1_ecx >> 28) & 1) && ((sym_xcr0 & 6) == 6);
}
#endif
