/* C08 - constant time by self-composition on instrumented clang IR.
 * The function under test (ll_ prefix, CT hooks live) is run twice on the SAME objects with identical public
 * parameters: phase 0 on a fixed reference assignment of every secret, recording the (site, branch condition) and
 * (site, object, offset[, length]) events; phase 1 on an ARBITRARY assignment, which must reproduce them one by one
 * (see ct.h: branches are then forced to the reference direction, so a leaking branch is reported once and the run goes on).
 * Parameters: CASE selects the function, others are its public parameters (see props/C08.py). */
#include "vh.h"
#define CT_MODE
#include "ct.h"
unsigned ct_n; int ct_phase; uint64_t ct_val[CT_MAX];

#define SEC 1300
uint8_t sym_sec[SEC];                           /* the arbitrary assignment of all secrets (phase 1) */
static uint8_t ref_sec[SEC];                    /* the reference assignment (phase 0) */
static uint8_t ctx[1024] __attribute__((aligned(32)));   /* key schedule / CTR context / handle image, one object for both phases */
static uint8_t obuf[320], ibuf[320], kbuf[64], tbuf[64 + 320];
typedef struct { const void *vtable; void *ctx; size_t psize; } handle_t;
static handle_t h;

/* entry points (erased signatures) */
uint32_t ll_skinny128_set_key(uint8_t *, uint8_t *, uint32_t); uint32_t ll_skinny128_set_tweaked_key(uint8_t *, uint8_t *, uint32_t); uint32_t ll_skinny128_set_tweak(uint8_t *, uint8_t *, uint32_t);
void ll_skinny128_ecb_encrypt(uint8_t *, uint8_t *, uint8_t *); void ll_skinny128_ecb_decrypt(uint8_t *, uint8_t *, uint8_t *);
uint32_t ll_skinny64_set_key(uint8_t *, uint8_t *, uint32_t); uint32_t ll_skinny64_set_tweaked_key(uint8_t *, uint8_t *, uint32_t); uint32_t ll_skinny64_set_tweak(uint8_t *, uint8_t *, uint32_t);
void ll_skinny64_ecb_encrypt(uint8_t *, uint8_t *, uint8_t *); void ll_skinny64_ecb_decrypt(uint8_t *, uint8_t *, uint8_t *);
uint32_t ll_mantis_set_key(uint8_t *, uint8_t *, uint32_t, uint32_t, uint32_t); uint32_t ll_mantis_set_tweak(uint8_t *, uint8_t *, uint32_t); void ll_mantis_swap_modes(uint8_t *);
void ll_mantis_ecb_crypt(uint8_t *, uint8_t *, uint8_t *); void ll_mantis_ecb_crypt_tweaked(uint8_t *, uint8_t *, uint8_t *, uint8_t *);
#ifdef CTRF
#define CF2(p, x) ll_##p##_##x
#define CF1(p, x) CF2(p, x)
#define CF(x) CF1(CTRF, x)
uint32_t CF(set_key)(uint8_t *, uint8_t *, uint32_t
#if CIPHER == 3
    , uint32_t
#endif
    );
uint32_t CF(set_tweak)(uint8_t *, uint8_t *, uint32_t); uint32_t CF(set_counter)(uint8_t *, uint8_t *, uint32_t);
uint32_t CF(encrypt)(uint8_t *, uint8_t *, uint64_t, uint8_t *);
#endif
#ifdef PARF
void PARF(uint8_t *, uint8_t *,
#if CIPHER == 3
    uint8_t *,
#endif
    uint8_t *);
#endif

static void secrets(int p)
{
    const uint8_t *s = p ? sym_sec : ref_sec;
    memcpy(ctx, s, 800);                                      /* the whole prior context / schedule is secret ... */
    memcpy(kbuf, s + 800, 64); memcpy(tbuf, s + 864, 64); memcpy(ibuf, s + 928, 320);
    /* ... except the public fields: round count and keystream offset */
#ifdef ROUNDS_OFF
    *(unsigned *)(ctx + ROUNDS_OFF) = ROUNDS;
#endif
#ifdef OFFSET_OFF
    *(unsigned *)(ctx + OFFSET_OFF) = O;
#endif
    h.vtable = (const void *)1; h.ctx = ctx; h.psize = 64;
}

void harness(void)
{
    unsigned n0 = 0;
    HARNESS_BEGIN();
    SYM_U8A(sym_sec);
    for (unsigned i = 0; i < SEC; i++) ref_sec[i] = (uint8_t)(i * 73u + 5u);
    for (ct_phase = 0; ct_phase < 2; ct_phase++) {
        ct_n = 0;
        secrets(ct_phase);
#if CASE == 1
        (void)ll_skinny128_set_key(ctx, kbuf, KLEN);
#elif CASE == 2
        (void)ll_skinny128_set_tweaked_key(ctx, kbuf, KLEN);
#elif CASE == 3
        (void)ll_skinny128_set_tweak(ctx, tbuf, TLEN);
#elif CASE == 4
        ll_skinny128_ecb_encrypt(obuf, ibuf, ctx);
#elif CASE == 5
        ll_skinny128_ecb_decrypt(obuf, ibuf, ctx);
#elif CASE == 11
        (void)ll_skinny64_set_key(ctx, kbuf, KLEN);
#elif CASE == 12
        (void)ll_skinny64_set_tweaked_key(ctx, kbuf, KLEN);
#elif CASE == 13
        (void)ll_skinny64_set_tweak(ctx, tbuf, TLEN);
#elif CASE == 14
        ll_skinny64_ecb_encrypt(obuf, ibuf, ctx);
#elif CASE == 15
        ll_skinny64_ecb_decrypt(obuf, ibuf, ctx);
#elif CASE == 21
        (void)ll_mantis_set_key(ctx, kbuf, 16, ROUNDS, MODE);
#elif CASE == 22
        (void)ll_mantis_set_tweak(ctx, tbuf, 8);
#elif CASE == 23
        ll_mantis_swap_modes(ctx);
#elif CASE == 24
        ll_mantis_ecb_crypt(obuf, ibuf, ctx);
#elif CASE == 25
        ll_mantis_ecb_crypt_tweaked(obuf, ibuf, tbuf, ctx);
#elif CASE == 31
        (void)CF(encrypt)(obuf, ibuf, N, (uint8_t *)&h);
#elif CASE == 32
        (void)CF(set_counter)((uint8_t *)&h, kbuf, LEN);
#elif CASE == 33
#if CIPHER == 3
        (void)CF(set_key)((uint8_t *)&h, kbuf, 16, ROUNDS);
#else
        (void)CF(set_key)((uint8_t *)&h, kbuf, KLEN);
#endif
#elif CASE == 34
        (void)CF(set_tweak)((uint8_t *)&h, tbuf, TLEN);
#elif CASE == 41
#if CIPHER == 3
        PARF(obuf, ibuf, tbuf, ctx);
#else
        PARF(obuf, ibuf, ctx);
#endif
#else
#error "no case"
#endif
        if (ct_phase == 0) n0 = ct_n;
    }
    CHECK(ct_n == n0, "CT: the number of branch/address events is the same for every secret");
    CHECK(n0 < CT_MAX, "event trace fits the recording buffer (otherwise the bound CT_MAX is too small)");
    CHECK(n0 > 0, "the instrumented code was actually executed");
    WITNESS_POINT();
}
#include "vh_end.h"
