/* native definitions of the nondeterministic-value functions, for replaying IR-derived code (undef values) */
#include <stdint.h>
#include <stdlib.h>
uint8_t nondet_u8(void) { return (uint8_t)rand(); } uint16_t nondet_u16(void) { return (uint16_t)rand(); }
uint32_t nondet_u32(void) { return (uint32_t)rand() ^ ((uint32_t)rand() << 16); }
uint64_t nondet_u64(void) { return ((uint64_t)nondet_u32() << 32) | nondet_u32(); }
