/* C13 - back-end selection.  Everything under test comes from clang IR (real <cpuid.h> inline assembly included).
 * Parameters: WHICH (1..6 = skinny128 ctr, skinny64 ctr, mantis ctr, skinny128 parallel, skinny64 parallel,
 * mantis parallel), HAVE128, HAVE256 (what the build configuration compiles in) */
#include "vh.h"
#include "cpu_model.h"
#include <stdlib.h>
typedef struct { const void *vtable; void *ctx; size_t parallel_size; } handle_t;
uint32_t ll__skinny_has_vec128(void); uint32_t ll__skinny_has_vec256(void);
#ifndef PRE
#define PRE 0
#endif
static uint32_t stub_init(uint8_t *h) { ((handle_t *)h)->ctx = malloc(8); return 1; }   /* vec init: not the subject here */
#if WHICH == 1
uint32_t ll_skinny128_ctr_init(uint8_t *); extern uint8_t ll_skinny128_ctr_def[]; void ll2c_init_skinny128_ctr_c(void);
uint8_t ll__skinny128_ctr_vec128[56], ll__skinny128_ctr_vec256[56];
#define INIT ll_skinny128_ctr_init
#define LLINIT() do { ll2c_init_skinny128_ctr_c(); *(void **)ll__skinny128_ctr_vec128 = (void *)stub_init; *(void **)ll__skinny128_ctr_vec256 = (void *)stub_init; } while (0)
#define GENERIC ll_skinny128_ctr_def
#define V128 ll__skinny128_ctr_vec128
#define V256 ll__skinny128_ctr_vec256
#define BLK 16
#define IS_CTR 1
#elif WHICH == 2
uint32_t ll_skinny64_ctr_init(uint8_t *); extern uint8_t ll_skinny64_ctr_def[]; void ll2c_init_skinny64_ctr_c(void);
uint8_t ll__skinny64_ctr_vec128[56];
#define INIT ll_skinny64_ctr_init
#define LLINIT() do { ll2c_init_skinny64_ctr_c(); *(void **)ll__skinny64_ctr_vec128 = (void *)stub_init; } while (0)
#define GENERIC ll_skinny64_ctr_def
#define V128 ll__skinny64_ctr_vec128
#define BLK 8
#define IS_CTR 1
#elif WHICH == 3
uint32_t ll_mantis_ctr_init(uint8_t *); extern uint8_t ll_mantis_ctr_def[]; void ll2c_init_mantis_ctr_c(void);
uint8_t ll__mantis_ctr_vec128[48];
#define INIT ll_mantis_ctr_init
#define LLINIT() do { ll2c_init_mantis_ctr_c(); *(void **)ll__mantis_ctr_vec128 = (void *)stub_init; } while (0)
#define GENERIC ll_mantis_ctr_def
#define V128 ll__mantis_ctr_vec128
#define BLK 8
#define IS_CTR 1
#elif WHICH == 4
uint32_t ll_skinny128_parallel_ecb_init(uint8_t *); extern uint8_t ll_skinny128_parallel_ecb_vec128[], ll_skinny128_parallel_ecb_vec256[]; void ll2c_init_skinny128_parallel_c(void);
#define INIT ll_skinny128_parallel_ecb_init
#define LLINIT() ll2c_init_skinny128_parallel_c()
#define GENERIC ((uint8_t *)0)
#define V128 ll_skinny128_parallel_ecb_vec128
#define V256 ll_skinny128_parallel_ecb_vec256
#define BLK 16
#define IS_CTR 0
#elif WHICH == 5
uint32_t ll_skinny64_parallel_ecb_init(uint8_t *); extern uint8_t ll_skinny64_parallel_ecb_vec128[]; void ll2c_init_skinny64_parallel_c(void);
#define INIT ll_skinny64_parallel_ecb_init
#define LLINIT() ll2c_init_skinny64_parallel_c()
#define GENERIC ((uint8_t *)0)
#define V128 ll_skinny64_parallel_ecb_vec128
#define BLK 8
#define IS_CTR 0
#else
uint32_t ll_mantis_parallel_ecb_init(uint8_t *); extern uint8_t ll_mantis_parallel_ecb_vec128[]; void ll2c_init_mantis_parallel_c(void);
#define INIT ll_mantis_parallel_ecb_init
#define LLINIT() ll2c_init_mantis_parallel_c()
#define GENERIC ((uint8_t *)0)
#define V128 ll_mantis_parallel_ecb_vec128
#define BLK 8
#define IS_CTR 0
#endif

void harness(void)
{
    handle_t h1, h2;
    HARNESS_BEGIN();
    cpu_model_init();
    LLINIT();
    int want256 = 0, want128 = HAVE128 && cpu_sse2_usable();
#ifdef V256
    want256 = HAVE256 && cpu_avx2_usable();
#endif
    const void *expect = want256 ? (const void *)
#ifdef V256
        V256
#else
        0
#endif
        : want128 ? (const void *)V128 : (const void *)GENERIC;
#if PRE == 1
    (void)ll__skinny_has_vec128();          /* whatever other initialisation ran earlier in the process must not matter */
#elif PRE == 2
    (void)ll__skinny_has_vec256();
#endif
    CHECK(INIT((uint8_t *)&h1) == 1, "initialisation succeeds");
    CHECK(INIT((uint8_t *)&h2) == 1, "second initialisation succeeds");
    CHECK(cpu_faults == 0, "the probe never executes XGETBV on a system where it would fault");
    CHECK(h1.vtable == h2.vtable, "two initialisations in one process select the same back end (whatever the registers held)");
#ifdef V256
    CHECK(h1.vtable != (const void *)V256 || cpu_avx2_usable(), "the 256-bit back end is never selected unless CPU and OS support AVX2");
#endif
    CHECK(h1.vtable != (const void *)V128 || cpu_sse2_usable(), "the 128-bit back end is never selected unless the CPU supports SSE2");
    CHECK(h1.vtable == expect, "the widest back end that is compiled in and usable is selected");
#if !IS_CTR
    CHECK(h1.parallel_size == h2.parallel_size, "advertised parallel size is the same every time");
    CHECK(h1.parallel_size > 0 && h1.parallel_size % BLK == 0, "advertised parallel size is a positive multiple of the block size");
#ifdef V256
    CHECK(h1.parallel_size == (h1.vtable == (const void *)V256 ? 128u : 64u), "advertised parallel size matches the selected back end");
#else
    CHECK(h1.parallel_size == 64u, "advertised parallel size matches the selected back end");
#endif
#endif
    WITNESS_POINT();
}
#include "vh_end.h"
