/* skinny_calloc against its contract, on integers.  The vector harnesses replace it by a model (its pointer rounding makes
 * every later offset symbolic), so the real function is decided here for every address the allocator could return, with
 * each of its allocation requests allowed to fail.  Contract (what its callers rely on): on success the result is 32-byte
 * aligned, [result, result+size) lies inside a live block obtained from the allocator, *base_ptr is that block's start
 * (what the caller must pass to free), every other block it obtained has been released; on failure NULL and nothing live. */
#include "vh.h"
#include <stdlib.h>
#define NA 3
uint64_t sym_addr[NA]; uint8_t sym_fail[NA];
static uint64_t blk_len[NA]; static int blk_live[NA]; static unsigned n_req, n_badfree;
static void *vh_calloc(size_t n, size_t size)
{
    if (n_req >= NA) return 0;
    unsigned k = n_req++;
    if (sym_fail[k] & 1) return 0;
    blk_len[k] = (uint64_t)n * size; blk_live[k] = 1;
    return (void *)(uintptr_t)sym_addr[k];
}
static void vh_free(void *p)
{
    if (!p) return;
    for (unsigned k = 0; k < NA; k++) if (blk_live[k] && (uintptr_t)p == sym_addr[k]) { blk_live[k] = 0; return; }
    n_badfree++;
}
#define calloc vh_calloc
#define free vh_free
#include "skinny-internal.c"
#undef calloc
#undef free
void harness(void)
{
    HARNESS_BEGIN();
    SYM_U64A(sym_addr); SYM_U8A(sym_fail);
    /* distinct, non-null, 16-byte aligned blocks (what malloc guarantees on this ABI) that do not wrap or overlap */
    for (int k = 0; k < NA; k++) { ASSUME(sym_addr[k] != 0 && (sym_addr[k] & 15) == 0 && sym_addr[k] < (1ULL << 47)); }
    ASSUME(sym_addr[0] + 4096 <= sym_addr[1] && sym_addr[1] + 4096 <= sym_addr[2]);
    void *base = (void *)0x1; size_t want = SIZE;
    void *p = skinny_calloc(want, &base);
    unsigned live = 0; for (int k = 0; k < NA; k++) live += (unsigned)blk_live[k];
    CHECK(n_badfree == 0, "nothing is released that the allocator did not hand out");
    if (!p) {
        CHECK(live == 0, "when the allocation fails, nothing obtained on the way is leaked");
    } else {
        CHECK(live == 1, "exactly one block stays with the caller");
        CHECK(((uintptr_t)p & 31) == 0, "the returned pointer is 32-byte aligned");
        int inside = 0, based = 0;
        for (int k = 0; k < NA; k++) if (blk_live[k]) {
            if ((uintptr_t)p >= sym_addr[k] && (uintptr_t)p + want <= sym_addr[k] + blk_len[k]) inside = 1;
            if (base == (void *)(uintptr_t)sym_addr[k]) based = 1;
        }
        CHECK(inside, "the whole context fits inside the block that was obtained");
        CHECK(based, "the pointer stored for free() is the start of that block");
    }
    WITNESS_POINT();
}
#include "vh_end.h"
