/* skinny_calloc on integers: the vector harnesses replace it by a contract model (its pointer rounding makes every later
 * offset symbolic), so the real function is decided here against that contract, for every address calloc could return */
#include "vh.h"
#include <stdlib.h>
uint64_t sym_addr; uint8_t sym_fail; size_t req_n, req_size;
static void *vh_calloc(size_t n, size_t size) { req_n = n; req_size = size; return (sym_fail & 1) ? (void *)0 : (void *)(uintptr_t)sym_addr; }
#define calloc vh_calloc
#include "skinny-internal.c"
#undef calloc
void harness(void)
{
    HARNESS_BEGIN();
    SYM_VAL(sym_addr); SYM_VAL(sym_fail);
    ASSUME(sym_addr != 0 && sym_addr <= UINT64_MAX - 4096);        /* a real block does not wrap around the address space */
    void *base = (void *)0x1; size_t want = 624;
    void *p = skinny_calloc(want, &base);
    if (sym_fail & 1) {
        CHECK(p == 0, "allocation failure is propagated as NULL");
    } else {
        CHECK(req_n * req_size >= want + 31, "the block requested from calloc leaves room for the alignment slack");
        CHECK(base == (void *)(uintptr_t)sym_addr, "the pointer to pass to free() is what calloc returned");
        CHECK(((uintptr_t)p & 31) == 0, "the returned pointer is 32-byte aligned");
        CHECK((uintptr_t)p >= sym_addr && (uintptr_t)p - sym_addr <= 31, "the returned pointer lies inside the slack at the start of the block");
    }
    WITNESS_POINT();
}
#include "vh_end.h"
