/* C02 - MANTIS conformance.  Parameters: R (5..8), MODE (1 encrypt, 0 decrypt), VIA (0 stored tweak, 1 per-call tweak,
 * 2 fresh schedule, 3 null tweak), or OB_SBOX / OB_LEMMA */
#include "vh.h"
#include "mantis-cipher.c"
#include "ref_mantis.h"
uint8_t sym_key[16], sym_tw[8], sym_tw2[8], sym_in[8];
uint64_t sym_w;
void harness(void)
{
    HARNESS_BEGIN();
    SYM_U8A(sym_key); SYM_U8A(sym_tw); SYM_U8A(sym_tw2); SYM_U8A(sym_in); SYM_VAL(sym_w);
#if defined(OB_SBOX)
    /* forall words: the bit-sliced S-box equals MIDORI Sb0 on every nibble lane */
#if SKINNY_64BIT
    uint64_t x = sym_w, y = mantis_sbox(x); int lanes = 16;
#else
    uint32_t x = (uint32_t)sym_w, y = mantis_sbox(x); int lanes = 8;
#endif
    for (int l = 0; l < lanes; l++)
        CHECK((uint8_t)((y >> (4 * l)) & 15) == MSB0[(x >> (4 * l)) & 15], "mantis_sbox equals MIDORI Sb0 in this lane");
#elif defined(OB_LEMMA)
    /* model-level lemmas: the alpha-reflection form of decryption is the structural inverse, and it inverts encryption */
    uint8_t c[8], p[8], q[8];
    ref_mantis(c, sym_in, sym_key, sym_tw, R, 0);
    ref_mantis(p, c, sym_key, sym_tw, R, 1);
    CHECK_BYTES_EQ(p, sym_in, 8, "model: decryption inverts encryption");
    ref_mantis(p, sym_in, sym_key, sym_tw, R, 1);
    ref_mantis_inv(q, sym_in, sym_key, sym_tw, R);
    CHECK_BYTES_EQ(p, q, 8, "model: alpha-reflection decryption equals the step-by-step inverse");
#else
    static MantisKey_t ks; uint8_t out[8], exp[8], zero[8] = {0};
    { MantisKey_t nd; ks = nd; }
    CHECK(mantis_set_key(&ks, sym_key, 16, R, MODE) == 1, "mantis_set_key accepts a 16-byte key and 5..8 rounds");
#if VIA == 0
    CHECK(mantis_set_tweak(&ks, sym_tw, 8) == 1, "set_tweak accepts 8 bytes");
    mantis_ecb_crypt(out, sym_in, &ks);
    ref_mantis(exp, sym_in, sym_key, sym_tw, R, MODE == 0);
#elif VIA == 1
    CHECK(mantis_set_tweak(&ks, sym_tw2, 8) == 1, "set_tweak accepts 8 bytes");       /* stored tweak must not matter */
    mantis_ecb_crypt_tweaked(out, sym_in, sym_tw, &ks);
    ref_mantis(exp, sym_in, sym_key, sym_tw, R, MODE == 0);
#elif VIA == 2
    mantis_ecb_crypt(out, sym_in, &ks);
    ref_mantis(exp, sym_in, sym_key, zero, R, MODE == 0);
#else
    CHECK(mantis_set_tweak(&ks, sym_tw2, 8) == 1, "set_tweak accepts 8 bytes");
    CHECK(mantis_set_tweak(&ks, 0, 8) == 1, "set_tweak accepts a null tweak");
    mantis_ecb_crypt(out, sym_in, &ks);
    ref_mantis(exp, sym_in, sym_key, zero, R, MODE == 0);
#endif
    CHECK_BYTES_EQ(out, exp, 8, "output equals MANTIS-r of the specification (or its inverse for a decryption schedule)");
#endif
    WITNESS_POINT();
}
#include "vh_end.h"
