/* C07 - parallel ECB equals block-by-block ECB.  Parameters: CIPHER (1 skinny128, 2 skinny64, 3 mantis), VEC (0|128|256), NR,
 *   OB_BATCH  (DIR): the vector batch function == single-block function on every block of the batch, arbitrary schedule
 *   OB_DRIVER (NBLK, DIR, INPLACE): the real driver loop for NBLK blocks == block-by-block, back end VEC
 * The driver (src/ *-parallel.c) and the single-block cipher are included natively; the vector batch functions come from
 * clang IR (ll_ prefix) and are reached from the native driver through one-line bridges. */
#include "vh.h"
#include <stdlib.h>
#include "skinny-internal.h"
int _skinny_has_vec128(void) { return VEC >= 128; }
int _skinny_has_vec256(void) { return VEC >= 256; }
#if CIPHER == 1
#include "skinny128-cipher.c"
#define BLK 16
#define KS_T Skinny128Key_t
#define MAXR 56
#if VEC == 128
void ll__skinny128_parallel_encrypt_vec128(uint8_t *, uint8_t *, uint8_t *); void ll__skinny128_parallel_decrypt_vec128(uint8_t *, uint8_t *, uint8_t *);
#ifndef REPLAY
void _skinny128_parallel_encrypt_vec128(void *o, const void *i, const Skinny128Key_t *k) { ll__skinny128_parallel_encrypt_vec128(o, (uint8_t *)i, (uint8_t *)k); }
void _skinny128_parallel_decrypt_vec128(void *o, const void *i, const Skinny128Key_t *k) { ll__skinny128_parallel_decrypt_vec128(o, (uint8_t *)i, (uint8_t *)k); }
void _skinny128_parallel_encrypt_vec256(void *o, const void *i, const Skinny128Key_t *k) { (void)o; (void)i; (void)k; }
void _skinny128_parallel_decrypt_vec256(void *o, const void *i, const Skinny128Key_t *k) { (void)o; (void)i; (void)k; }
#endif
#define BATCH_ENC ll__skinny128_parallel_encrypt_vec128
#define BATCH_DEC ll__skinny128_parallel_decrypt_vec128
#define LANES 4
#elif VEC == 256
void ll__skinny128_parallel_encrypt_vec256(uint8_t *, uint8_t *, uint8_t *); void ll__skinny128_parallel_decrypt_vec256(uint8_t *, uint8_t *, uint8_t *);
#ifndef REPLAY
void _skinny128_parallel_encrypt_vec256(void *o, const void *i, const Skinny128Key_t *k) { ll__skinny128_parallel_encrypt_vec256(o, (uint8_t *)i, (uint8_t *)k); }
void _skinny128_parallel_decrypt_vec256(void *o, const void *i, const Skinny128Key_t *k) { ll__skinny128_parallel_decrypt_vec256(o, (uint8_t *)i, (uint8_t *)k); }
void _skinny128_parallel_encrypt_vec128(void *o, const void *i, const Skinny128Key_t *k) { (void)o; (void)i; (void)k; }
void _skinny128_parallel_decrypt_vec128(void *o, const void *i, const Skinny128Key_t *k) { (void)o; (void)i; (void)k; }
#endif
#define BATCH_ENC ll__skinny128_parallel_encrypt_vec256
#define BATCH_DEC ll__skinny128_parallel_decrypt_vec256
#define LANES 8
#else
#ifndef REPLAY
void _skinny128_parallel_encrypt_vec128(void *o, const void *i, const Skinny128Key_t *k) { (void)o; (void)i; (void)k; }
void _skinny128_parallel_decrypt_vec128(void *o, const void *i, const Skinny128Key_t *k) { (void)o; (void)i; (void)k; }
void _skinny128_parallel_encrypt_vec256(void *o, const void *i, const Skinny128Key_t *k) { (void)o; (void)i; (void)k; }
void _skinny128_parallel_decrypt_vec256(void *o, const void *i, const Skinny128Key_t *k) { (void)o; (void)i; (void)k; }
#endif
#define LANES 4
#endif
#include "skinny128-parallel.c"
#define OBJ_T Skinny128ParallelECB_t
#define P(x) skinny128_parallel_ecb_##x
#define ONE_ENC(o,i,ks,t) skinny128_ecb_encrypt(o, i, ks)
#define ONE_DEC(o,i,ks,t) skinny128_ecb_decrypt(o, i, ks)
#elif CIPHER == 2
#include "skinny64-cipher.c"
#define BLK 8
#define KS_T Skinny64Key_t
#define MAXR 40
#if VEC == 128
void ll__skinny64_parallel_encrypt_vec128(uint8_t *, uint8_t *, uint8_t *); void ll__skinny64_parallel_decrypt_vec128(uint8_t *, uint8_t *, uint8_t *);
#ifndef REPLAY
void _skinny64_parallel_encrypt_vec128(void *o, const void *i, const Skinny64Key_t *k) { ll__skinny64_parallel_encrypt_vec128(o, (uint8_t *)i, (uint8_t *)k); }
void _skinny64_parallel_decrypt_vec128(void *o, const void *i, const Skinny64Key_t *k) { ll__skinny64_parallel_decrypt_vec128(o, (uint8_t *)i, (uint8_t *)k); }
#endif
#define BATCH_ENC ll__skinny64_parallel_encrypt_vec128
#define BATCH_DEC ll__skinny64_parallel_decrypt_vec128
#else
#ifndef REPLAY
void _skinny64_parallel_encrypt_vec128(void *o, const void *i, const Skinny64Key_t *k) { (void)o; (void)i; (void)k; }
void _skinny64_parallel_decrypt_vec128(void *o, const void *i, const Skinny64Key_t *k) { (void)o; (void)i; (void)k; }
#endif
#endif
#define LANES 8
#include "skinny64-parallel.c"
#define OBJ_T Skinny64ParallelECB_t
#define P(x) skinny64_parallel_ecb_##x
#define ONE_ENC(o,i,ks,t) skinny64_ecb_encrypt(o, i, ks)
#define ONE_DEC(o,i,ks,t) skinny64_ecb_decrypt(o, i, ks)
#else
#include "mantis-cipher.c"
#define BLK 8
#define KS_T MantisKey_t
#define MAXR 8
#if VEC == 128
void ll__mantis_parallel_crypt_vec128(uint8_t *, uint8_t *, uint8_t *, uint8_t *);
#ifndef REPLAY
void _mantis_parallel_crypt_vec128(void *o, const void *i, const void *t, const MantisKey_t *k) { ll__mantis_parallel_crypt_vec128(o, (uint8_t *)i, (uint8_t *)t, (uint8_t *)k); }
#endif
#define BATCH_ENC(o,i,k) ll__mantis_parallel_crypt_vec128(o, i, sym_tw, k)
#define BATCH_DEC(o,i,k) ll__mantis_parallel_crypt_vec128(o, i, sym_tw, k)
#else
#ifndef REPLAY
void _mantis_parallel_crypt_vec128(void *o, const void *i, const void *t, const MantisKey_t *k) { (void)o; (void)i; (void)t; (void)k; }
#endif
#endif
#define LANES 8
#include "mantis-parallel.c"
#define OBJ_T MantisParallelECB_t
#define P(x) mantis_parallel_ecb_##x
#define ONE_ENC(o,i,ks,t) mantis_ecb_crypt_tweaked(o, i, t, ks)
#define ONE_DEC(o,i,ks,t) mantis_ecb_crypt_tweaked(o, i, t, ks)
#endif
#ifndef NR
#define NR MAXR
#endif
#ifndef NBLK
#define NBLK LANES
#endif
#define NB (NBLK > LANES ? NBLK : LANES)

uint8_t sym_in[NB * BLK + 1], sym_tw[NB * BLK + 1];
#if CIPHER == 3
uint64_t sym_mks[4];
static void arbitrary_schedule(KS_T *ks) { SYM_U64A(sym_mks); ks->k0.llrow = sym_mks[0]; ks->k0prime.llrow = sym_mks[1]; ks->k1.llrow = sym_mks[2]; ks->tweak.llrow = sym_mks[3]; ks->rounds = NR; }
#else
uint32_t sym_rkw[NR][2];
static void arbitrary_schedule(KS_T *ks)
{
    for (int r = 0; r < NR; r++) { SYM_U32A(sym_rkw[r]); }
    ks->rounds = NR;
    for (int r = 0; r < NR; r++) {
#if CIPHER == 1
        ks->schedule[r].row[0] = sym_rkw[r][0]; ks->schedule[r].row[1] = sym_rkw[r][1];
#else
        ks->schedule[r].row[0] = (uint16_t)sym_rkw[r][0]; ks->schedule[r].row[1] = (uint16_t)sym_rkw[r][1];
#endif
    }
}
#endif

void harness(void)
{
    static KS_T ks; uint8_t exp[BLK];
    HARNESS_BEGIN();
    SYM_U8A(sym_in); SYM_U8A(sym_tw);
    arbitrary_schedule(&ks);
#if defined(OB_BATCH)
    uint8_t out[LANES * BLK];
#if DIR == 0
    BATCH_ENC(out, sym_in, (uint8_t *)&ks);
#else
    BATCH_DEC(out, sym_in, (uint8_t *)&ks);
#endif
    for (int b = 0; b < LANES; b++) {
#if DIR == 0
        ONE_ENC(exp, sym_in + b * BLK, &ks, sym_tw + b * BLK);
#else
        ONE_DEC(exp, sym_in + b * BLK, &ks, sym_tw + b * BLK);
#endif
        CHECK_BYTES_EQ(out + b * BLK, exp, BLK, "the batch function gives each block what the single-block function gives (block i under tweak i for Mantis)");
    }
#elif defined(OB_DRIVER)
    OBJ_T e; e.ctx = &ks;
    e.vtable = 0; e.parallel_size = LANES * BLK;
    /* let the real init choose vtable and parallel size for this back end, then point the object at our schedule */
    { OBJ_T t; CHECK(P(init)(&t) == 1, "init succeeds"); e.vtable = t.vtable; e.parallel_size = t.parallel_size; free(t.ctx); }
    CHECK(e.parallel_size > 0 && e.parallel_size % BLK == 0, "advertised parallel size is a positive multiple of the block size");
    size_t n = (size_t)NBLK * BLK;
    uint8_t *in = malloc(n ? n : 1), *out; ASSUME(in != 0); memcpy(in, sym_in, n);
#if INPLACE
    out = in;
#else
    out = malloc(n ? n : 1); ASSUME(out != 0);
#endif
    int r;
#if CIPHER == 3
    uint8_t *tw = malloc(n ? n : 1); ASSUME(tw != 0); memcpy(tw, sym_tw, n);
    r = P(crypt)(out, in, tw, n, &e);
#elif DIR == 0
    r = P(encrypt)(out, in, n, &e);
#else
    r = P(decrypt)(out, in, n, &e);
#endif
    CHECK(r == 1, "a whole number of blocks is accepted");
    for (int b = 0; b < NBLK; b++) {
#if DIR == 0
        ONE_ENC(exp, sym_in + b * BLK, &ks, sym_tw + b * BLK);
#else
        ONE_DEC(exp, sym_in + b * BLK, &ks, sym_tw + b * BLK);
#endif
        CHECK_BYTES_EQ(out + b * BLK, exp, BLK, "parallel processing gives block i exactly what the single-block function gives (under the i-th tweak for Mantis)");
    }
#elif defined(OB_BADSIZE)
    /* C14 through the real driver and real batch functions: a byte count that is not a whole number of blocks, larger than
       one batch, returns 0 and leaves the output buffer untouched */
    OBJ_T e; e.ctx = &ks;
    { OBJ_T t; CHECK(P(init)(&t) == 1, "init succeeds"); e.vtable = t.vtable; e.parallel_size = t.parallel_size; free(t.ctx); }
    size_t n = (size_t)NBLK * BLK + EXTRA;
    static uint8_t outb[NB * BLK + BLK], before[NB * BLK + BLK]; uint8_t inb[NB * BLK + BLK];
    { uint8_t nd[sizeof outb]; memcpy(outb, nd, sizeof outb); memcpy(before, outb, sizeof outb); }
    memset(inb, 0, sizeof inb); memcpy(inb, sym_in, sizeof sym_in);
    int r;
    (void)exp;
#if CIPHER == 3
    r = P(crypt)(outb, inb, sym_tw, n, &e);
#elif DIR == 0
    r = P(encrypt)(outb, inb, n, &e);
#else
    r = P(decrypt)(outb, inb, n, &e);
#endif
    CHECK(r == 0, "a byte count that is not a whole number of blocks is rejected");
    CHECK_BYTES_EQ(outb, before, sizeof outb, "a rejected call writes nothing to the output buffer, however large the count");
#elif defined(OB_RT)
    /* C03 through the parallel entry points: decrypt(encrypt(m)) == m and encrypt(decrypt(m)) == m for NBLK blocks */
    OBJ_T e; e.ctx = &ks;
    { OBJ_T t; CHECK(P(init)(&t) == 1, "init succeeds"); e.vtable = t.vtable; e.parallel_size = t.parallel_size; free(t.ctx); }
    size_t n = (size_t)NBLK * BLK;
    uint8_t *a = malloc(n ? n : 1), *b = malloc(n ? n : 1); ASSUME(a && b);
    (void)exp;
#if CIPHER == 3
    static KS_T ks2; ks2 = ks; mantis_swap_modes(&ks2);        /* the inverse schedule */
    OBJ_T e2 = e; e2.ctx = &ks2;
    CHECK(P(crypt)(a, sym_in, sym_tw, n, &e) == 1, "accepted"); CHECK(P(crypt)(b, a, sym_tw, n, &e2) == 1, "accepted");
#elif DIR == 0
    CHECK(P(encrypt)(a, sym_in, n, &e) == 1, "accepted"); CHECK(P(decrypt)(b, a, n, &e) == 1, "accepted");
#else
    CHECK(P(decrypt)(a, sym_in, n, &e) == 1, "accepted"); CHECK(P(encrypt)(b, a, n, &e) == 1, "accepted");
#endif
    CHECK_BYTES_EQ(b, sym_in, n, "the parallel functions invert each other on every block");
#else
#error "no obligation"
#endif
    WITNESS_POINT();
}
#include "vh_end.h"
