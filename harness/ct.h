/* ct.h - event hooks for the constant-time check (C08).  ll2c emits CT_BR at every conditional branch / switch,
 * CT_ADDR at every load, store and memory intrinsic (address) and CT_LEN at every memory intrinsic (length).
 * Phase 0 records the event sequence, phase 1 (same public parameters, independent secrets) must repeat it. */
#ifndef CT_H
#define CT_H
#include <stdint.h>
#include <stddef.h>
#ifdef WW_MODE
/* write-watch mode (C18): no store instruction may target the objects the caller passed as pointer-to-const */
extern const void *ww_obj[2];
#ifdef REPLAY
#include <stdio.h>
#include <stdlib.h>
extern size_t ww_size[2];
#define CT_STORE(id,p) do { for (int w_ = 0; w_ < 2; w_++) if (ww_obj[w_] && (const uint8_t *)(p) >= (const uint8_t *)ww_obj[w_] && (const uint8_t *)(p) < (const uint8_t *)ww_obj[w_] + ww_size[w_]) { printf("REPLAY-FAIL: store into a read-only object (site %d)\n", (int)(id)); fflush(stdout); exit(1); } } while (0)
#else
#define CT_STORE(id,p) __CPROVER_assert(!(ww_obj[0] && __CPROVER_POINTER_OBJECT(p) == __CPROVER_POINTER_OBJECT(ww_obj[0])) && !(ww_obj[1] && __CPROVER_POINTER_OBJECT(p) == __CPROVER_POINTER_OBJECT(ww_obj[1])), "no store targets an object that the caller passed as read-only (key schedule / parallel-ECB object): concurrent readers write nothing")
#endif
#define CT_BR(id,c) ((void)0)
#define CT_ADDR(id,p) ((void)0)
#define CT_LEN(id,n) ((void)0)
#else
#define CT_STORE(id,p) ((void)0)
#ifndef CT_MAX
#define CT_MAX 6000
#endif
extern unsigned ct_n; extern int ct_phase; extern uint64_t ct_val[CT_MAX];
#ifdef REPLAY
#include <stdio.h>
#include <stdlib.h>
static inline void ct_event(uint64_t v)
{
    if (ct_n < CT_MAX) {
        if (ct_phase == 0) ct_val[ct_n] = v;
        else if (ct_val[ct_n] != v) { printf("REPLAY-FAIL: branch or address event %u differs between two secrets (site %u)\n", ct_n, (unsigned)(v >> 48)); fflush(stdout); exit(1); }
    }
    ct_n++;
}
#define CT_BR(id,c)   ct_event(((uint64_t)(id) << 48) ^ (uint64_t)((c) != 0))
#define CT_ADDR(id,p) ct_event(((uint64_t)(id) << 48) ^ ((uint64_t)(uintptr_t)(p) & 0xFFFFFFFFFFFFULL))
#define CT_LEN(id,n)  ct_event(((uint64_t)(id) << 48) ^ (uint64_t)(n))
#else
static inline void ct_event(uint64_t v)
{
    if (ct_n < CT_MAX) {
        if (ct_phase == 0) ct_val[ct_n] = v;
        else __CPROVER_assert(ct_val[ct_n] == v, "CT: the branch taken / address accessed at this point is the same for every secret");
    }
    ct_n++;
}
#define CT_BR(id,c)   ct_event(((uint64_t)(id) << 48) ^ (uint64_t)((c) != 0))
#define CT_ADDR(id,p) ct_event(((uint64_t)(id) << 48) ^ ((uint64_t)__CPROVER_POINTER_OBJECT(p) << 32) ^ (uint64_t)__CPROVER_POINTER_OFFSET(p))
#define CT_LEN(id,n)  ct_event(((uint64_t)(id) << 48) ^ (uint64_t)(n))
#endif
#endif /* WW_MODE */
#endif
