/* ct.h - event hooks for the constant-time check (C08).  ll2c emits CT_BR at every conditional branch / switch,
 * CT_ADDR at every load, store and memory intrinsic (address) and CT_LEN at every memory intrinsic (length).
 * Phase 0 records the event sequence, phase 1 (same public parameters, independent secrets) must repeat it. */
#ifndef CT_H
#define CT_H
#include <stdint.h>
#include <stddef.h>
#ifndef CT_MAX
#define CT_MAX 6000
#endif
extern unsigned ct_n; extern int ct_phase; extern uint64_t ct_val[CT_MAX];
#ifdef REPLAY
#include <stdio.h>
#include <stdlib.h>
static inline void ct_event(uint64_t v)
{
    if (ct_n < CT_MAX) {
        if (ct_phase == 0) ct_val[ct_n] = v;
        else if (ct_val[ct_n] != v) { printf("REPLAY-FAIL: branch or address event %u differs between two secrets (site %u)\n", ct_n, (unsigned)(v >> 48)); fflush(stdout); exit(1); }
    }
    ct_n++;
}
#define CT_BR(id,c)   ct_event(((uint64_t)(id) << 48) ^ (uint64_t)((c) != 0))
#define CT_ADDR(id,p) ct_event(((uint64_t)(id) << 48) ^ ((uint64_t)(uintptr_t)(p) & 0xFFFFFFFFFFFFULL))
#define CT_LEN(id,n)  ct_event(((uint64_t)(id) << 48) ^ (uint64_t)(n))
#else
static inline void ct_event(uint64_t v)
{
    if (ct_n < CT_MAX) {
        if (ct_phase == 0) ct_val[ct_n] = v;
        else __CPROVER_assert(ct_val[ct_n] == v, "CT: the branch taken / address accessed at this point is the same for every secret");
    }
    ct_n++;
}
#define CT_BR(id,c)   ct_event(((uint64_t)(id) << 48) ^ (uint64_t)((c) != 0))
#define CT_ADDR(id,p) ct_event(((uint64_t)(id) << 48) ^ ((uint64_t)__CPROVER_POINTER_OBJECT(p) << 32) ^ (uint64_t)__CPROVER_POINTER_OFFSET(p))
#define CT_LEN(id,n)  ct_event(((uint64_t)(id) << 48) ^ (uint64_t)(n))
#endif
#endif
