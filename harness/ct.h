/* ct.h - event hooks emitted by ll2c into the C derived from clang IR.
 *
 * Constant-time mode (C08): phase 0 runs the function on a fixed reference assignment of the secrets and records the
 * sequence of events - (site, branch condition) at every conditional branch / switch, (site, object, offset) at every
 * load, store and memory intrinsic, (site, length) at every memory intrinsic.  Phase 1 runs it on ARBITRARY secrets with
 * the same public parameters: every event must equal the recorded one, and each branch is then forced to the recorded
 * direction, so that the comparison stays aligned (and the symbolic execution stays on one path) even when the code under
 * test does branch on a secret.  "Every secret gives the reference trace" implies "any two secrets give the same trace".
 *
 * Write-watch mode (C18, WW_MODE): no store may target the objects registered in ww_obj. */
#ifndef CT_H
#define CT_H
#include <stdint.h>
#include <stddef.h>
#ifdef REPLAY
#include <stdio.h>
#include <stdlib.h>
#endif
#ifdef WW_MODE
extern const void *ww_obj[2];
#ifdef REPLAY
extern size_t ww_size[2];
#define CT_STORE(id,p) do { for (int w_ = 0; w_ < 2; w_++) if (ww_obj[w_] && (const uint8_t *)(p) >= (const uint8_t *)ww_obj[w_] && (const uint8_t *)(p) < (const uint8_t *)ww_obj[w_] + ww_size[w_]) { printf("REPLAY-FAIL: store into a read-only object (site %d)\n", (int)(id)); fflush(stdout); exit(1); } } while (0)
#else
#define CT_STORE(id,p) __CPROVER_assert(!(ww_obj[0] && __CPROVER_POINTER_OBJECT(p) == __CPROVER_POINTER_OBJECT(ww_obj[0])) && !(ww_obj[1] && __CPROVER_POINTER_OBJECT(p) == __CPROVER_POINTER_OBJECT(ww_obj[1])), "no store targets an object that the caller passed as read-only (key schedule / parallel-ECB object): concurrent readers write nothing")
#endif
#define CT_BR(id,c) ((void)0)
#define CT_BRV(id,c) (c)
#define CT_SWV(id,v) (v)
#define CT_ADDR(id,p) ((void)0)
#define CT_LEN(id,n) ((void)0)
#else
#define CT_STORE(id,p) ((void)0)
#ifndef CT_MAX
#define CT_MAX 6000
#endif
extern unsigned ct_n; extern int ct_phase; extern uint64_t ct_val[CT_MAX];
static inline uint64_t ct_event(uint64_t v)
{
    uint64_t r = v;
    if (ct_n < CT_MAX) {
        if (ct_phase == 0) ct_val[ct_n] = v;
        else {
#ifdef REPLAY
            if (ct_val[ct_n] != v) { printf("REPLAY-FAIL: branch or address event %u differs from the reference run (site %u)\n", ct_n, (unsigned)(v >> 48)); fflush(stdout); exit(1); }
#else
            __CPROVER_assert(ct_val[ct_n] == v, "CT: the branch taken / address accessed at this point is the same for every secret");
#endif
            r = ct_val[ct_n];
        }
    }
    ct_n++;
    return r;
}
#define CT_BR(id,c)   ((void)ct_event(((uint64_t)(id) << 48) ^ (uint64_t)((c) != 0)))
#define CT_BRV(id,c)  ((uint8_t)(ct_event(((uint64_t)(id) << 48) ^ (uint64_t)((c) != 0)) & 1))
#define CT_SWV(id,v)  (ct_event(((uint64_t)(id) << 48) ^ ((uint64_t)(v) & 0xFFFFFFFFFFFFULL)) & 0xFFFFFFFFFFFFULL)
#define CT_LEN(id,n)  ((void)ct_event(((uint64_t)(id) << 48) ^ (uint64_t)(n)))
#ifdef REPLAY
#define CT_ADDR(id,p) ((void)ct_event(((uint64_t)(id) << 48) ^ ((uint64_t)(uintptr_t)(p) & 0xFFFFFFFFFFFFULL)))
#else
#define CT_ADDR(id,p) ((void)ct_event(((uint64_t)(id) << 48) ^ ((uint64_t)__CPROVER_POINTER_OBJECT(p) << 32) ^ (uint64_t)__CPROVER_POINTER_OFFSET(p)))
#endif
#endif /* WW_MODE */
#endif
