/* vh.h - conventions shared by every harness.
 *
 * Symbolic inputs are GLOBALS whose names start with sym_; they are filled once at the
 * start of harness() with SYM_* and never written afterwards.  Under CBMC they receive
 * nondeterministic values; for replay (-DREPLAY) the runner generates "replay_values.inc"
 * from the solver's counterexample, the same harness is compiled by gcc against the real
 * code and CHECK() turns into an ordinary run-time test.
 */
#ifndef VH_H
#define VH_H
#include <stdint.h>
#include <stddef.h>
#include <string.h>

#ifdef REPLAY
#include <stdio.h>
#include <stdlib.h>
static void vh_replay_init(void);
static void vh_replay_random(unsigned seed);
static unsigned vh_seed;
/* leave a non-zero pattern in the stack area the library calls are about to use, so that a result
   computed from memory the library never initialised shows up in the replay as it does in the model
   (run.sh also sets MALLOC_PERTURB_ for the heap) */
static __attribute__((noinline)) void vh_dirty_stack(void)
{
    volatile uint8_t junk[32768];
    for (unsigned i_ = 0; i_ < sizeof junk; i_++) junk[i_] = (uint8_t)(0xA5 ^ i_);
}
#define HARNESS_BEGIN()   do { vh_replay_init(); if (vh_seed) vh_replay_random(vh_seed); vh_dirty_stack(); } while (0)
#define SYM_U8A(a)        ((void)0)
#define SYM_U16A(a)       ((void)0)
#define SYM_U32A(a)       ((void)0)
#define SYM_U64A(a)       ((void)0)
#define SYM_BYTES(p,n)    ((void)0)
#define SYM_VAL(v)        ((void)0)
#define CHECK(c,msg)      do { if (!(c)) { printf("REPLAY-FAIL: %s\n", msg); fflush(stdout); exit(1); } } while (0)
#define ASSUME(c)         do { if (!(c)) { printf("REPLAY-ASSUME-FALSE: %s\n", #c); fflush(stdout); exit(3); } } while (0)
#define WITNESS_POINT()   ((void)0)
#define __CPROVER_assert(c,msg) CHECK(c, msg)
#define __CPROVER_assume(c) ASSUME(c)
#define VH_MAIN           int main(int argc, char **argv) { if (argc > 1) vh_seed = (unsigned)atoi(argv[1]); harness(); printf("REPLAY-PASS\n"); return 0; }
#else
uint8_t  nondet_u8(void);
uint16_t nondet_u16(void);
uint32_t nondet_u32(void);
uint64_t nondet_u64(void);
unsigned nondet_uint(void);
int      nondet_int(void);
size_t   nondet_size(void);
_Bool    nondet_bool(void);
#define HARNESS_BEGIN()   ((void)0)
#define SYM_U8A(a)   do { for (size_t i_ = 0; i_ < sizeof(a)/sizeof((a)[0]); i_++) (a)[i_] = nondet_u8();  } while (0)
#define SYM_U16A(a)  do { for (size_t i_ = 0; i_ < sizeof(a)/sizeof((a)[0]); i_++) (a)[i_] = nondet_u16(); } while (0)
#define SYM_U32A(a)  do { for (size_t i_ = 0; i_ < sizeof(a)/sizeof((a)[0]); i_++) (a)[i_] = nondet_u32(); } while (0)
#define SYM_U64A(a)  do { for (size_t i_ = 0; i_ < sizeof(a)/sizeof((a)[0]); i_++) (a)[i_] = nondet_u64(); } while (0)
#define SYM_BYTES(p,n) do { for (size_t i_ = 0; i_ < (size_t)(n); i_++) ((uint8_t *)(p))[i_] = nondet_u8(); } while (0)
#define SYM_VAL(v)   do { if (sizeof(v) == 1) (v) = nondet_u8(); else if (sizeof(v) == 2) (v) = nondet_u16(); else if (sizeof(v) == 4) (v) = nondet_u32(); else (v) = nondet_u64(); } while (0)   /* integer scalars only */
#define ASSUME(c)         __CPROVER_assume(c)
#ifdef WITNESS
/* vacuity twin: same program, same assumptions; the only assertion is the one at the end,
   which must come back FAILED (the end of the harness is reachable under the assumptions) */
#define CHECK(c,msg)      ((void)(c))          /* the condition may contain the call under test */
#define WITNESS_POINT()   __CPROVER_assert(0, "WITNESS: end of harness is reachable")
#else
#define CHECK(c,msg)      __CPROVER_assert((c), msg)
#define WITNESS_POINT()   ((void)0)
#endif
#define VH_MAIN
#endif

/* byte comparison helper: asserts equality byte by byte so a failure names the byte */
#define CHECK_BYTES_EQ(a,b,n,msg) do { for (size_t j_ = 0; j_ < (size_t)(n); j_++) CHECK(((const uint8_t *)(a))[j_] == ((const uint8_t *)(b))[j_], msg); } while (0)

/* big-endian +1 / -1 on an n-byte counter, written independently of the library */
static inline void vh_be_inc(uint8_t *c, int n) { int carry = 1; for (int i = n - 1; i >= 0; i--) { carry += c[i]; c[i] = (uint8_t)carry; carry >>= 8; } }
static inline void vh_be_dec(uint8_t *c, int n) { int b = 1; for (int i = n - 1; i >= 0; i--) { int v = c[i] - b; c[i] = (uint8_t)v; b = (v < 0); } }
static inline void vh_be_add(uint8_t *c, int n, unsigned k) { unsigned carry = k; for (int i = n - 1; i >= 0; i--) { carry += c[i]; c[i] = (uint8_t)carry; carry >>= 8; } }

#endif
