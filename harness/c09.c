/* C09 - buffer contract of the single-block functions.  Parameters: CIPHER (1 skinny128, 2 skinny64, 3 mantis), NR, DIR,
 *   OB_EXTENT          : input, output (and per-call tweak) are exact-extent heap objects of one block
 *   OB_OVERLAP (I, J)  : output = buf + I, input = buf + J inside one buffer; result must equal the disjoint result */
#include "vh.h"
#include <stdlib.h>
#if CIPHER == 1
#include "skinny128-cipher.c"
#define BLK 16
#define KS_T Skinny128Key_t
#define RUN(o,i,ks,t) do { if (DIR == 0) skinny128_ecb_encrypt(o, i, ks); else skinny128_ecb_decrypt(o, i, ks); } while (0)
#elif CIPHER == 2
#include "skinny64-cipher.c"
#define BLK 8
#define KS_T Skinny64Key_t
#define RUN(o,i,ks,t) do { if (DIR == 0) skinny64_ecb_encrypt(o, i, ks); else skinny64_ecb_decrypt(o, i, ks); } while (0)
#else
#include "mantis-cipher.c"
#define BLK 8
#define KS_T MantisKey_t
#define RUN(o,i,ks,t) do { if (DIR == 0) mantis_ecb_crypt(o, i, ks); else mantis_ecb_crypt_tweaked(o, i, t, ks); } while (0)
#endif
uint8_t sym_in[BLK], sym_tw[BLK];
#if CIPHER == 3
uint64_t sym_mks[4];
static void arbitrary_schedule(KS_T *ks) { SYM_U64A(sym_mks); ks->k0.llrow = sym_mks[0]; ks->k0prime.llrow = sym_mks[1]; ks->k1.llrow = sym_mks[2]; ks->tweak.llrow = sym_mks[3]; ks->rounds = NR; }
#else
uint32_t sym_rkw[NR][2];
static void arbitrary_schedule(KS_T *ks)
{
    for (int r = 0; r < NR; r++) { SYM_U32A(sym_rkw[r]); }
    ks->rounds = NR;
    for (int r = 0; r < NR; r++) {
#if CIPHER == 1
        ks->schedule[r].row[0] = sym_rkw[r][0]; ks->schedule[r].row[1] = sym_rkw[r][1];
#else
        ks->schedule[r].row[0] = (uint16_t)sym_rkw[r][0]; ks->schedule[r].row[1] = (uint16_t)sym_rkw[r][1];
#endif
    }
}
#endif
void harness(void)
{
    static KS_T ks; uint8_t ref[BLK];
    HARNESS_BEGIN();
    SYM_U8A(sym_in); SYM_U8A(sym_tw);
    arbitrary_schedule(&ks);
    { uint8_t i2[BLK], t2[BLK]; memcpy(i2, sym_in, BLK); memcpy(t2, sym_tw, BLK); RUN(ref, i2, &ks, t2); }      /* disjoint buffers: the reference result */
#if defined(OB_EXTENT)
    uint8_t *in = malloc(BLK), *out = malloc(BLK), *tw = malloc(8); ASSUME(in && out && tw);
    memcpy(in, sym_in, BLK); memcpy(tw, sym_tw, 8);
    RUN(out, in, &ks, tw);                          /* any access outside the three objects is a bounds failure */
    CHECK_BYTES_EQ(out, ref, BLK, "result does not depend on where the buffers are");
    CHECK_BYTES_EQ(in, sym_in, BLK, "the input block is only read");
    CHECK_BYTES_EQ(tw, sym_tw, 8, "the tweak is only read");
#elif defined(OB_OVERLAP)
    uint8_t *buf = malloc(2 * BLK); ASSUME(buf != 0);
    uint8_t t2[BLK]; memcpy(t2, sym_tw, BLK);
    memcpy(buf + J, sym_in, BLK);
    RUN(buf + I, buf + J, &ks, t2);
    CHECK_BYTES_EQ(buf + I, ref, BLK, "single-block functions give the same result for any overlap of input and output");
#else
#error "no obligation"
#endif
    WITNESS_POINT();
}
#include "vh_end.h"
