/* C10 - key lengths.  Parameters: CB, KEYLEN (concrete), OB_ACCEPT | OB_REJECT | OB_REJECT_SYM | OB_MANTIS,
 * API_PLAIN | API_TWEAKED | API_CTR | API_CTR_TWEAKED | API_PAR, LLROUTE (cipher file taken from clang IR via ll2c) */
#include "vh.h"
#ifdef LLROUTE
#define NO_CIPHER_INCLUDE
#endif
#include "cipher_sel.h"
#include "ref_skinny.h"

#ifdef LLROUTE
uint32_t ll_skinny128_set_key(uint8_t *, uint8_t *, uint32_t); uint32_t ll_skinny128_set_tweaked_key(uint8_t *, uint8_t *, uint32_t);
uint32_t ll_skinny64_set_key(uint8_t *, uint8_t *, uint32_t);  uint32_t ll_skinny64_set_tweaked_key(uint8_t *, uint8_t *, uint32_t);
#undef SET_KEY
#undef SET_TKEY
#if CB == 8
#define SET_KEY(ks,k,n)  ((int)ll_skinny128_set_key((uint8_t *)(ks), (uint8_t *)(k), (n)))
#define SET_TKEY(ks,k,n) ((int)ll_skinny128_set_tweaked_key((uint8_t *)(ks), (uint8_t *)(k), (n)))
#else
#define SET_KEY(ks,k,n)  ((int)ll_skinny64_set_key((uint8_t *)(ks), (uint8_t *)(k), (n)))
#define SET_TKEY(ks,k,n) ((int)ll_skinny64_set_tweaked_key((uint8_t *)(ks), (uint8_t *)(k), (n)))
#endif
#endif

#if defined(API_TWEAKED) || defined(API_CTR_TWEAKED)
#define TWK 1
#define MAXLEN (2 * BLK)
#else
#define TWK 0
#define MAXLEN (3 * BLK)
#endif

#ifdef LLROUTE
/* everything under test comes from clang IR; handles and contexts are plain byte images */
#if CB == 8
uint32_t ll_skinny128_ctr_set_key(uint8_t *, uint8_t *, uint32_t); uint32_t ll_skinny128_ctr_set_tweaked_key(uint8_t *, uint8_t *, uint32_t);
uint32_t ll_skinny128_parallel_ecb_set_key(uint8_t *, uint8_t *, uint32_t);
extern uint8_t ll_skinny128_ctr_def[]; void ll2c_init_skinny128_ctr_c(void);
#define LL_CTR_SET_KEY ll_skinny128_ctr_set_key
#define LL_CTR_SET_TKEY ll_skinny128_ctr_set_tweaked_key
#define LL_PAR_SET_KEY ll_skinny128_parallel_ecb_set_key
#define LL_CTR_DEF ll_skinny128_ctr_def
#define LL_CTR_INIT ll2c_init_skinny128_ctr_c
#else
uint32_t ll_skinny64_ctr_set_key(uint8_t *, uint8_t *, uint32_t); uint32_t ll_skinny64_ctr_set_tweaked_key(uint8_t *, uint8_t *, uint32_t);
uint32_t ll_skinny64_parallel_ecb_set_key(uint8_t *, uint8_t *, uint32_t);
extern uint8_t ll_skinny64_ctr_def[]; void ll2c_init_skinny64_ctr_c(void);
#define LL_CTR_SET_KEY ll_skinny64_ctr_set_key
#define LL_CTR_SET_TKEY ll_skinny64_ctr_set_tweaked_key
#define LL_PAR_SET_KEY ll_skinny64_parallel_ecb_set_key
#define LL_CTR_DEF ll_skinny64_ctr_def
#define LL_CTR_INIT ll2c_init_skinny64_ctr_c
#endif
typedef struct { struct { const void *vtable; void *ctx; size_t parallel_size; } h; union { KEY_T ks; TKEY_T tk; uint8_t bytes[640]; } ctx; } obj_t;
static int call_set_key(obj_t *o, const void *key, unsigned len)
{
#if defined(API_CTR)
    return (int)LL_CTR_SET_KEY((uint8_t *)&o->h, (uint8_t *)key, len);
#elif defined(API_CTR_TWEAKED)
    return (int)LL_CTR_SET_TKEY((uint8_t *)&o->h, (uint8_t *)key, len);
#elif defined(API_PAR)
    return (int)LL_PAR_SET_KEY((uint8_t *)&o->h, (uint8_t *)key, len);
#elif defined(API_TWEAKED)
    return SET_TKEY(&o->ctx.tk, key, len);
#else
    return SET_KEY(&o->ctx.ks, key, len);
#endif
}
static const KEY_T *sched_of(const obj_t *o) { return &o->ctx.ks; }   /* the schedule is the first member of every context */
static void prepare(obj_t *o)
{
    obj_t nd; *o = nd;                     /* arbitrary prior content */
#if defined(API_CTR) || defined(API_CTR_TWEAKED)
    LL_CTR_INIT(); o->h.vtable = LL_CTR_DEF; o->h.ctx = &o->ctx;
#elif defined(API_PAR)
    o->h.vtable = 0; o->h.ctx = &o->ctx;
#endif
}
#else /* native route */
#if defined(API_CTR) || defined(API_CTR_TWEAKED)
#include "skinny-internal.c"
#if CB == 8
#include "skinny128-ctr-internal.h"
Skinny128CTRVtable_t const _skinny128_ctr_vec128; Skinny128CTRVtable_t const _skinny128_ctr_vec256;   /* not selected here */
#include "skinny128-ctr.c"
#define CTR_T Skinny128CTR_t
#define CTX_T Skinny128CTRCtx_t
#define CTR_DEF skinny128_ctr_def
#define CTR_SET_KEY skinny128_ctr_set_key
#define CTR_SET_TKEY skinny128_ctr_set_tweaked_key
#else
#include "skinny64-ctr-internal.h"
Skinny64CTRVtable_t const _skinny64_ctr_vec128;
#include "skinny64-ctr.c"
#define CTR_T Skinny64CTR_t
#define CTX_T Skinny64CTRCtx_t
#define CTR_DEF skinny64_ctr_def
#define CTR_SET_KEY skinny64_ctr_set_key
#define CTR_SET_TKEY skinny64_ctr_set_tweaked_key
#endif
#endif
#ifdef API_PAR
#include "skinny-internal.c"
#if CB == 8
#include "skinny128-parallel.c"
#define PAR_T Skinny128ParallelECB_t
#define PAR_SET_KEY skinny128_parallel_ecb_set_key
void _skinny128_parallel_encrypt_vec128(void *o, const void *i, const Skinny128Key_t *k) { (void)o; (void)i; (void)k; }
void _skinny128_parallel_decrypt_vec128(void *o, const void *i, const Skinny128Key_t *k) { (void)o; (void)i; (void)k; }
void _skinny128_parallel_encrypt_vec256(void *o, const void *i, const Skinny128Key_t *k) { (void)o; (void)i; (void)k; }
void _skinny128_parallel_decrypt_vec256(void *o, const void *i, const Skinny128Key_t *k) { (void)o; (void)i; (void)k; }
#else
#include "skinny64-parallel.c"
#define PAR_T Skinny64ParallelECB_t
#define PAR_SET_KEY skinny64_parallel_ecb_set_key
void _skinny64_parallel_encrypt_vec128(void *o, const void *i, const Skinny64Key_t *k) { (void)o; (void)i; (void)k; }
void _skinny64_parallel_decrypt_vec128(void *o, const void *i, const Skinny64Key_t *k) { (void)o; (void)i; (void)k; }
#endif
#endif

/* the object the key-setting call works on, and how to reach its schedule */
typedef struct {
#if defined(API_CTR) || defined(API_CTR_TWEAKED)
    CTR_T h; CTX_T ctx;
#elif defined(API_PAR)
    PAR_T h; KEY_T ctx;
#elif defined(API_TWEAKED)
    TKEY_T tk;
#else
    KEY_T ks;
#endif
} obj_t;

static int call_set_key(obj_t *o, const void *key, unsigned len)
{
#if defined(API_CTR)
    return CTR_SET_KEY(&o->h, key, len);
#elif defined(API_CTR_TWEAKED)
    return CTR_SET_TKEY(&o->h, key, len);
#elif defined(API_PAR)
    return PAR_SET_KEY(&o->h, key, len);
#elif defined(API_TWEAKED)
    return SET_TKEY(&o->tk, key, len);
#else
    return SET_KEY(&o->ks, key, len);
#endif
}
static const KEY_T *sched_of(const obj_t *o)
{
#if defined(API_CTR) || defined(API_CTR_TWEAKED)
    return &o->ctx.kt.ks;
#elif defined(API_PAR)
    return &o->ctx;
#elif defined(API_TWEAKED)
    return &o->tk.ks;
#else
    return &o->ks;
#endif
}
static void prepare(obj_t *o)
{
    obj_t nd; *o = nd;                     /* arbitrary prior content (an uninitialised local is unconstrained in CBMC) */
#if defined(API_CTR) || defined(API_CTR_TWEAKED)
    o->h.vtable = &CTR_DEF; o->h.ctx = &o->ctx;
#elif defined(API_PAR)
    o->h.vtable = 0; o->h.ctx = &o->ctx;
#endif
}
#endif /* route */

#if defined(OB_ACCEPT)
/* forall key bytes: length KEYLEN is accepted and behaves as the key zero-padded to the next primary size */
uint8_t sym_key[KEYLEN];
void harness(void)
{
    static obj_t o; uint8_t padded[3 * BLK]; uint8_t rk[REF_MAX_ROUNDS][8], exp[RKB], got[RKB];
    HARNESS_BEGIN();
    SYM_U8A(sym_key);
    prepare(&o);
    uint8_t *exact = malloc(KEYLEN);            /* exact-extent key buffer: reading past KEYLEN is a bounds failure */
    ASSUME(exact != 0);
    memcpy(exact, sym_key, KEYLEN);
    CHECK(call_set_key(&o, exact, KEYLEN) == 1, "a key length inside the documented range is accepted");
    memset(padded, 0, sizeof padded);
    int z = (KEYLEN + BLK - 1) / BLK;           /* tweakey words taken by the key */
    int rounds;
#if TWK
    memcpy(padded + BLK, sym_key, KEYLEN);      /* TK1 = all-zero tweak, key in TK2[/TK3] */
    z = z + 1; rounds = ref_rounds(CB, z);
    ref_skinny_roundkeys(CB, padded, z, rounds, 1, rk);
#else
    memcpy(padded, sym_key, KEYLEN);
    rounds = ref_rounds(CB, z);
    ref_skinny_roundkeys(CB, padded, z, rounds, 0, rk);
#endif
    const KEY_T *ks = sched_of(&o);
    CHECK(ks->rounds == (unsigned)rounds, "round count is that of the next primary key size");
    for (int r = 0; r < rounds; r++) {
        ref_pack_rk(CB, exp, rk[r]); vh_load_rk(ks, (unsigned)r, got);
        CHECK_BYTES_EQ(got, exp, RKB, "schedule equals the schedule of the zero-padded key");
    }
    free(exact);
    WITNESS_POINT();
}
#elif defined(OB_REJECT) || defined(OB_REJECT_SYM)
/* a length outside the range returns 0 and leaves the object byte-identical */
#ifdef OB_REJECT_SYM
unsigned sym_len;
#endif
uint8_t sym_key[3 * BLK + 16];
void harness(void)
{
    static obj_t o, before;
    HARNESS_BEGIN();
#ifndef OB_REJECT_SYM
    SYM_U8A(sym_key);
#endif
#ifdef OB_REJECT_SYM
    SYM_VAL(sym_len);
    ASSUME(sym_len < BLK || sym_len > MAXLEN);
    unsigned len = sym_len;
#else
    unsigned len = KEYLEN;
#endif
    prepare(&o);
    before = o;
    CHECK(call_set_key(&o, sym_key, len) == 0, "a key length outside the documented range is rejected with 0");
#ifdef OB_REJECT_SYM
    /* compared field by field so that this query can run with a small unwinding bound (the symbolic length makes
       CBMC unwind the library's length-driven loops up to the bound although their guards are infeasible) */
    { const KEY_T *a = sched_of(&o), *b = sched_of(&before);
      CHECK(a->rounds == b->rounds, "a rejected key length leaves the round count untouched");
      for (int r = 0; r < MAXR; r++) CHECK(a->schedule[r].row[0] == b->schedule[r].row[0] && a->schedule[r].row[1] == b->schedule[r].row[1], "a rejected key length leaves the existing schedule untouched");
#if defined(API_TWEAKED)
      for (int i = 0; i < BLK; i++) CHECK(o.tk.tweak[i] == before.tk.tweak[i], "a rejected key length leaves the stored tweak untouched");
#elif defined(API_CTR) || defined(API_CTR_TWEAKED)
      for (int i = 0; i < BLK; i++) CHECK(o.ctx.kt.tweak[i] == before.ctx.kt.tweak[i] && o.ctx.counter[i] == before.ctx.counter[i] && o.ctx.ecounter[i] == before.ctx.ecounter[i], "a rejected key length leaves tweak, counter and buffered keystream untouched");
      CHECK(o.ctx.offset == before.ctx.offset && o.h.vtable == before.h.vtable && o.h.ctx == before.h.ctx, "a rejected key length leaves offset and handle untouched");
#elif defined(API_PAR)
      CHECK(o.h.vtable == before.h.vtable && o.h.ctx == before.h.ctx && o.h.parallel_size == before.h.parallel_size, "a rejected key length leaves the handle untouched");
#endif
    }
#else
    CHECK_BYTES_EQ(&o, &before, sizeof o, "a rejected key length leaves the existing schedule and object untouched");
#endif
    WITNESS_POINT();
}
#else
#error "no obligation"
#endif
#include <stdlib.h>
#include "vh_end.h"
