/* C11 - results are a function of the API inputs only.  Every template is executed twice, on two distinct sets of
 * objects whose prior contents are independent arbitrary bytes (CBMC leaves uninitialised locals, fresh heap bytes and
 * harness objects unconstrained - exactly "different stack and heap contents"), with the same API inputs.  Return values,
 * outputs and the meaningful state must be equal.  Padding and schedule entries beyond the round count are not compared.
 *   OB_KEY   (CB, KLEN, TWEAKED, [LLROUTE]) | OB_TWEAK (CB, KLEN, TLEN, [NULLT]) | OB_MANTIS (R, MODE)
 *   OB_CTR   (CIPHER, VEC, KLEN, CNTMODE 0 none / 1 set_counter(c, LEN) / 2 set_counter(NULL, LEN), N) */
#if defined(OB_CTR)
#include "ctr_model.h"
#if VEC
uint8_t *ll_skinny_calloc(uint64_t size, uint8_t *base_ptr) { uint8_t *p = calloc(1, size + 31); if (!p) return 0; *(void **)base_ptr = p; return p; }
#endif
uint8_t sym_key[48], sym_cnt[BLK], sym_in[N + 1];
static int run(uint8_t *out)
{
    int r = 1;
#if VEC
    vhandle_t h; { vhandle_t nd; h = nd; } h.vtable = (const void *)1;
    r &= (int)VF(init)((uint8_t *)&h);
#if CIPHER == 3
    r &= (int)VF(set_key)((uint8_t *)&h, sym_key, 16, 5 + (KLEN & 3));
#else
    r &= (int)VF(set_key)((uint8_t *)&h, sym_key, KLEN);
#endif
#if CNTMODE == 1
    r &= (int)VF(set_counter)((uint8_t *)&h, sym_cnt, LEN);
#elif CNTMODE == 2
    r &= (int)VF(set_counter)((uint8_t *)&h, 0, LEN);
#endif
    r &= (int)VF(encrypt)(out, sym_in, N, (uint8_t *)&h);
    VF(cleanup)((uint8_t *)&h);
#else
    HANDLE_T h; { HANDLE_T nd; h = nd; }
    r &= PUB(init)(&h);
#if CIPHER == 3
    r &= PUB(set_key)(&h, sym_key, 16, 5 + (KLEN & 3));
#else
    r &= PUB(set_key)(&h, sym_key, KLEN);
#endif
#if CNTMODE == 1
    r &= PUB(set_counter)(&h, sym_cnt, LEN);
#elif CNTMODE == 2
    r &= PUB(set_counter)(&h, 0, LEN);
#endif
    r &= PUB(encrypt)(out, sym_in, N, &h);
    PUB(cleanup)(&h);
#endif
    return r;
}
void harness(void)
{
    uint8_t o1[N + 1], o2[N + 1];
    HARNESS_BEGIN();
    SYM_U8A(sym_key); SYM_U8A(sym_cnt); SYM_U8A(sym_in);
    int r1 = run(o1), r2 = run(o2);
    CHECK(r1 == r2, "return values are determined by the API inputs");
    CHECK(r1 == 1, "the valid call sequence succeeds");
    for (unsigned i = 0; i < N; i++) CHECK(o1[i] == o2[i], "every output byte is determined by the API inputs, not by prior stack or heap contents");
    WITNESS_POINT();
}
#else
#include "vh.h"
#ifdef LLROUTE
#define NO_CIPHER_INCLUDE
#endif
#ifndef CB
#define CB 8
#endif
#include "cipher_sel.h"
#ifdef LLROUTE
uint32_t ll_skinny128_set_key(uint8_t *, uint8_t *, uint32_t); uint32_t ll_skinny128_set_tweaked_key(uint8_t *, uint8_t *, uint32_t); uint32_t ll_skinny128_set_tweak(uint8_t *, uint8_t *, uint32_t);
uint32_t ll_skinny64_set_key(uint8_t *, uint8_t *, uint32_t);  uint32_t ll_skinny64_set_tweaked_key(uint8_t *, uint8_t *, uint32_t); uint32_t ll_skinny64_set_tweak(uint8_t *, uint8_t *, uint32_t);
void ll_skinny128_ecb_encrypt(uint8_t *, uint8_t *, uint8_t *); void ll_skinny64_ecb_encrypt(uint8_t *, uint8_t *, uint8_t *);
#undef SET_KEY
#undef SET_TKEY
#undef SET_TWEAK
#undef ENC
#if CB == 8
#define SET_KEY(ks,k,n)  ((int)ll_skinny128_set_key((uint8_t *)(ks), (uint8_t *)(k), (n)))
#define SET_TKEY(ks,k,n) ((int)ll_skinny128_set_tweaked_key((uint8_t *)(ks), (uint8_t *)(k), (n)))
#define SET_TWEAK(ks,k,n) ((int)ll_skinny128_set_tweak((uint8_t *)(ks), (uint8_t *)(k), (n)))
#define ENC(o,i,ks) ll_skinny128_ecb_encrypt((uint8_t *)(o), (uint8_t *)(i), (uint8_t *)(ks))
#else
#define SET_KEY(ks,k,n)  ((int)ll_skinny64_set_key((uint8_t *)(ks), (uint8_t *)(k), (n)))
#define SET_TKEY(ks,k,n) ((int)ll_skinny64_set_tweaked_key((uint8_t *)(ks), (uint8_t *)(k), (n)))
#define SET_TWEAK(ks,k,n) ((int)ll_skinny64_set_tweak((uint8_t *)(ks), (uint8_t *)(k), (n)))
#define ENC(o,i,ks) ll_skinny64_ecb_encrypt((uint8_t *)(o), (uint8_t *)(i), (uint8_t *)(ks))
#endif
#endif
#if defined(OB_MANTIS)
#include "mantis-cipher.c"
#endif
uint8_t sym_key[48], sym_tw[BLK], sym_in[BLK];
static int same_sched(const KEY_T *a, const KEY_T *b)
{
    if (a->rounds != b->rounds) return 0;
    for (unsigned r = 0; r < MAXR; r++) if (r < a->rounds && (a->schedule[r].row[0] != b->schedule[r].row[0] || a->schedule[r].row[1] != b->schedule[r].row[1])) return 0;
    return 1;
}
void harness(void)
{
    HARNESS_BEGIN();
    SYM_U8A(sym_key); SYM_U8A(sym_tw); SYM_U8A(sym_in);
#if defined(OB_KEY)
    static TKEY_T a, b; { TKEY_T n1, n2; a = n1; b = n2; }            /* two objects, independent arbitrary prior contents */
    uint8_t o1[BLK], o2[BLK];
#if TWEAKED
    int r1 = SET_TKEY(&a, sym_key, KLEN), r2 = SET_TKEY(&b, sym_key, KLEN);
#else
    int r1 = SET_KEY(&a.ks, sym_key, KLEN), r2 = SET_KEY(&b.ks, sym_key, KLEN);
#endif
    CHECK(r1 == r2 && r1 == 1, "return value is determined by the API inputs");
    CHECK(same_sched(&a.ks, &b.ks), "the key schedule is determined by the key bytes and length, not by prior stack or object contents");
#if TWEAKED
    for (int i = 0; i < BLK; i++) CHECK(a.tweak[i] == b.tweak[i], "the stored tweak is determined by the API inputs");
#endif
    ENC(o1, sym_in, &a.ks); ENC(o2, sym_in, &b.ks);
    CHECK_BYTES_EQ(o1, o2, BLK, "ciphertext is determined by the API inputs");
#elif defined(OB_TWEAK)
    static TKEY_T a, b; { TKEY_T n1, n2; a = n1; b = n2; }
    uint8_t o1[BLK], o2[BLK];
    int r1 = SET_TKEY(&a, sym_key, KLEN), r2 = SET_TKEY(&b, sym_key, KLEN);
#ifdef NULLT
    r1 &= SET_TWEAK(&a, 0, TLEN); r2 &= SET_TWEAK(&b, 0, TLEN);
#else
    r1 &= SET_TWEAK(&a, sym_tw, TLEN); r2 &= SET_TWEAK(&b, sym_tw, TLEN);
#endif
    CHECK(r1 == r2 && r1 == 1, "return values are determined by the API inputs");
    CHECK(same_sched(&a.ks, &b.ks), "the tweaked schedule is determined by key and tweak, not by prior contents");
    for (int i = 0; i < BLK; i++) CHECK(a.tweak[i] == b.tweak[i], "the stored tweak is determined by the API inputs");
    ENC(o1, sym_in, &a.ks); ENC(o2, sym_in, &b.ks);
    CHECK_BYTES_EQ(o1, o2, BLK, "ciphertext is determined by the API inputs");
#elif defined(OB_MANTIS)
    static MantisKey_t a, b; { MantisKey_t n1, n2; a = n1; b = n2; }
    uint8_t o1[8], o2[8];
    int r1 = mantis_set_key(&a, sym_key, 16, R, MODE), r2 = mantis_set_key(&b, sym_key, 16, R, MODE);
    CHECK(r1 == r2 && r1 == 1, "return value is determined by the API inputs");
    CHECK(a.k0.llrow == b.k0.llrow && a.k0prime.llrow == b.k0prime.llrow && a.k1.llrow == b.k1.llrow && a.tweak.llrow == b.tweak.llrow && a.rounds == b.rounds, "every field of a freshly keyed Mantis schedule (tweak included) is determined by the API inputs");
    mantis_ecb_crypt(o1, sym_in, &a); mantis_ecb_crypt(o2, sym_in, &b);
    CHECK_BYTES_EQ(o1, o2, 8, "output is determined by the API inputs");
#else
#error "no obligation"
#endif
    WITNESS_POINT();
}
#endif
#include "vh_end.h"
