/* ctr_model.h - one description of every CTR back end, shared by C05, C06, C09, C14-C17.
 *
 *   CIPHER : 1 = Skinny-128, 2 = Skinny-64, 3 = Mantis
 *   VEC    : 0 = generic back end only, 128 / 256 = also the vector back end of that width
 *
 * The generic back end, the dispatcher and the scalar block cipher are the real files of /repo included
 * natively (CBMC's C front end).  The vector back end comes from clang IR through ll2c (ll_ prefix): CBMC
 * mis-models '>>' on GCC vectors and lays out structs with vector members differently from gcc/clang, so a
 * vector context is only ever handled as a byte image with clang's offsets (cross-checked against gcc's
 * offsetof on every run by the runner).
 */
#ifndef CTR_MODEL_H
#define CTR_MODEL_H
#include "vh.h"
#include <stdlib.h>
#ifndef VEC
#define VEC 0
#endif

/* ------------------------------------------------------------------ native side */
#include "skinny-internal.h"
#ifdef TRACK_ALLOC
/* C15-C17: the library's calloc/free are renamed (macro, no source change) to tracking wrappers */
void *vh_calloc(size_t n, size_t sz); void vh_free(void *p);
#define calloc vh_calloc
#define free vh_free
#endif
/* back-end selection is C13's subject: here the probes are pinned so that the public init picks the back end
   under test (VEC); the vector vtable is a native one whose entries bridge to the translated functions (in a replay these definitions
   come first on the link line and take precedence over the library's) */
int _skinny_has_vec128(void) { return VEC >= 128; }      /* the public init then selects the back end under test */
int _skinny_has_vec256(void) { return VEC >= 256; }
#if CIPHER == 1
#include "skinny128-cipher.c"
#include "skinny128-ctr-internal.h"
#ifndef REPLAY
#if VEC != 128
Skinny128CTRVtable_t const _skinny128_ctr_vec128;   /* native placeholder, never selected */
#endif
#if VEC != 256
Skinny128CTRVtable_t const _skinny128_ctr_vec256;
#endif
#endif
#define VT_T Skinny128CTRVtable_t
#include "skinny128-ctr.c"
#define BLK 16
#define KS_T Skinny128TweakedKey_t
#define GCTX_T Skinny128CTRCtx_t
#define HANDLE_T Skinny128CTR_t
#define GEN_VT skinny128_ctr_def
#define KS_OF(g) ((g)->kt)
#define MAXR 56
#define PUB(x) skinny128_ctr_##x
#define GEN(x) skinny128_ctr_def_##x
#elif CIPHER == 2
#include "skinny64-cipher.c"
#include "skinny64-ctr-internal.h"
#ifndef REPLAY
#if VEC != 128
Skinny64CTRVtable_t const _skinny64_ctr_vec128;
#endif
#endif
#define VT_T Skinny64CTRVtable_t
#include "skinny64-ctr.c"
#define BLK 8
#define KS_T Skinny64TweakedKey_t
#define GCTX_T Skinny64CTRCtx_t
#define HANDLE_T Skinny64CTR_t
#define GEN_VT skinny64_ctr_def
#define KS_OF(g) ((g)->kt)
#define MAXR 40
#define PUB(x) skinny64_ctr_##x
#define GEN(x) skinny64_ctr_def_##x
#else
#include "mantis-cipher.c"
#include "mantis-ctr-internal.h"
#ifndef REPLAY
#if VEC != 128
MantisCTRVtable_t const _mantis_ctr_vec128;
#endif
#endif
#define VT_T MantisCTRVtable_t
#include "mantis-ctr.c"
#define BLK 8
#define KS_T MantisKey_t
#define GCTX_T MantisCTRCtx_t
#define HANDLE_T MantisCTR_t
#define GEN_VT mantis_ctr_def
#define KS_OF(g) ((g)->ks)
#define MAXR 8
#define PUB(x) mantis_ctr_##x
#define GEN(x) mantis_ctr_def_##x
#endif

/* ------------------------------------------------------------------ vector side (byte image + erased entry points) */
#if VEC
#if CIPHER == 1 && VEC == 128
#define LANES 4
#define V_COUNTER 480
#define V_ECOUNTER 544
#define V_OFFSET 608
#define V_BASE 616
#define V_SIZE 624
#define LANE_POS(j,i) ((((i) & 0x0C) * 4) + (j) * 4 + ((i) & 3))
#define VF(x) ll_skinny128_ctr_vec128_##x
#elif CIPHER == 1 && VEC == 256
#define LANES 8
#define V_COUNTER 480
#define V_ECOUNTER 608
#define V_OFFSET 736
#define V_BASE 744
#define V_SIZE 768
#define LANE_POS(j,i) ((((i) & 0x0C) * 8) + (j) * 4 + ((i) & 3))
#define VF(x) ll_skinny128_ctr_vec256_##x
#elif CIPHER == 2 && VEC == 128
#define LANES 8
#define V_COUNTER 176
#define V_ECOUNTER 240
#define V_OFFSET 304
#define V_BASE 312
#define V_SIZE 320
#define LANE_POS(j,i) ((((i) & 6) * 8) + (j) * 2 + ((i) & 1))
#define VF(x) ll_skinny64_ctr_vec128_##x
#elif CIPHER == 3 && VEC == 128
#define LANES 8
#define V_COUNTER 48
#define V_ECOUNTER 112
#define V_OFFSET 176
#define V_BASE 184
#define V_SIZE 192
#define LANE_POS(j,i) ((((i) & 6) * 8) + (j) * 2 + ((i) & 1))
#define VF(x) ll_mantis_ctr_vec128_##x
#else
#error "no such vector back end"
#endif
#define VB (BLK * LANES)                /* keystream batch bytes of the vector back end */
uint32_t VF(init)(uint8_t *ctr);
void     VF(cleanup)(uint8_t *ctr);
#if CIPHER == 3
uint32_t VF(set_key)(uint8_t *ctr, uint8_t *key, uint32_t size, uint32_t rounds);
#else
uint32_t VF(set_key)(uint8_t *ctr, uint8_t *key, uint32_t size);
uint32_t VF(set_tweaked_key)(uint8_t *ctr, uint8_t *key, uint32_t size);
#endif
uint32_t VF(set_tweak)(uint8_t *ctr, uint8_t *tweak, uint32_t size);
uint32_t VF(set_counter)(uint8_t *ctr, uint8_t *counter, uint32_t size);
uint32_t VF(encrypt)(uint8_t *out, uint8_t *in, uint64_t size, uint8_t *ctr);
typedef struct { const void *vtable; void *ctx; } vhandle_t;
#define V_OFF(c) (*(unsigned *)((c) + V_OFFSET))
#ifndef REPLAY
/* the library's vtable symbol for this back end, native, every entry a one-line bridge to the translated function: the real
   dispatcher (native) then reaches the real vector back end (clang IR) exactly as in the library */
static int br_init(HANDLE_T *c) { return (int)VF(init)((uint8_t *)c); }
static void br_cleanup(HANDLE_T *c) { VF(cleanup)((uint8_t *)c); }
static int br_set_tweak(HANDLE_T *c, const void *t, unsigned n) { return (int)VF(set_tweak)((uint8_t *)c, (uint8_t *)t, n); }
static int br_set_counter(HANDLE_T *c, const void *t, unsigned n) { return (int)VF(set_counter)((uint8_t *)c, (uint8_t *)t, n); }
static int br_encrypt(void *o, const void *i, size_t n, HANDLE_T *c) { return (int)VF(encrypt)((uint8_t *)o, (uint8_t *)i, n, (uint8_t *)c); }
#if CIPHER == 3
static int br_set_key(HANDLE_T *c, const void *k, unsigned n, unsigned r) { return (int)VF(set_key)((uint8_t *)c, (uint8_t *)k, n, r); }
MantisCTRVtable_t const _mantis_ctr_vec128 = { br_init, br_cleanup, br_set_key, br_set_tweak, br_set_counter, br_encrypt };
#else
static int br_set_key(HANDLE_T *c, const void *k, unsigned n) { return (int)VF(set_key)((uint8_t *)c, (uint8_t *)k, n); }
static int br_set_tweaked_key(HANDLE_T *c, const void *k, unsigned n) { return (int)VF(set_tweaked_key)((uint8_t *)c, (uint8_t *)k, n); }
#if CIPHER == 1 && VEC == 128
Skinny128CTRVtable_t const _skinny128_ctr_vec128 = { br_init, br_cleanup, br_set_key, br_set_tweaked_key, br_set_tweak, br_set_counter, br_encrypt };
#elif CIPHER == 1
Skinny128CTRVtable_t const _skinny128_ctr_vec256 = { br_init, br_cleanup, br_set_key, br_set_tweaked_key, br_set_tweak, br_set_counter, br_encrypt };
#else
Skinny64CTRVtable_t const _skinny64_ctr_vec128 = { br_init, br_cleanup, br_set_key, br_set_tweaked_key, br_set_tweak, br_set_counter, br_encrypt };
#endif
#endif
#endif
#endif

/* ------------------------------------------------------------------ abstract view used by the invariants */
/* scalar block encryption under schedule ks: the oracle for every back end (tied to the specification by C01/C02) */
static inline void oracle_E(uint8_t *out, const uint8_t *in, const KS_T *ks)
{
#if CIPHER == 1
    skinny128_ecb_encrypt(out, in, &ks->ks);
#elif CIPHER == 2
    skinny64_ecb_encrypt(out, in, &ks->ks);
#else
    mantis_ecb_crypt(out, in, ks);
#endif
}

/* an arbitrary key schedule with NR rounds from symbolic words (every round key / Mantis key word unconstrained) */
#ifndef NR
#define NR MAXR
#endif
#if CIPHER == 3
uint64_t sym_mks[4];
static void arbitrary_schedule(KS_T *ks)
{
    SYM_U64A(sym_mks);
    ks->k0.llrow = sym_mks[0]; ks->k0prime.llrow = sym_mks[1]; ks->k1.llrow = sym_mks[2]; ks->tweak.llrow = sym_mks[3];
    ks->rounds = NR;
}
#else
uint32_t sym_rkw[NR][2]; uint8_t sym_tweakbytes[BLK];
static void arbitrary_schedule(KS_T *ks)
{
    for (int r = 0; r < NR; r++) { SYM_U32A(sym_rkw[r]); }
    SYM_U8A(sym_tweakbytes);
    ks->ks.rounds = NR;
    for (int r = 0; r < NR; r++) {
#if CIPHER == 1
        ks->ks.schedule[r].row[0] = sym_rkw[r][0]; ks->ks.schedule[r].row[1] = sym_rkw[r][1];
#else
        ks->ks.schedule[r].row[0] = (uint16_t)sym_rkw[r][0]; ks->ks.schedule[r].row[1] = (uint16_t)sym_rkw[r][1];
#endif
    }
    memcpy(ks->tweak, sym_tweakbytes, BLK);
}
#endif

#if VEC
/* write / read counter value of lane j in the vector context image */
static inline void v_set_lane(uint8_t *vctx, int j, const uint8_t *c) { for (int i = 0; i < BLK; i++) vctx[V_COUNTER + LANE_POS(j, i)] = c[i]; }
static inline void v_get_lane(const uint8_t *vctx, int j, uint8_t *c) { for (int i = 0; i < BLK; i++) c[i] = vctx[V_COUNTER + LANE_POS(j, i)]; }
#endif
#endif
