/* lcp.c - life cycle (C15), allocation failure (C16), wipe (C17) and error contract (C14) of parallel-ECB objects.
 * The driver files (src/ *-parallel.c) are the real code, included natively; which back end serves the object is
 * a symbolic choice (probe results), the batch functions of the vector back ends are empty stubs here because
 * nothing in these obligations depends on the data they produce (C07 decides that).
 * Parameters: CIPHER, one of OB_SEQ (SEQ), OB_WIPE, OB_ALLOCFAIL, OB_INITNULL, OB_INERT, OB_ERR (ERRCASE) */
#include "vh.h"
#include <stdlib.h>
#include "skinny-internal.h"
void *vh_calloc(size_t n, size_t sz); void vh_free(void *p);
uint8_t sym_has128, sym_has256;
int _skinny_has_vec128(void) { return sym_has128 & 1; }
int _skinny_has_vec256(void) { return sym_has256 & 1; }
#define calloc vh_calloc
#define free vh_free
#if CIPHER == 1
#include "skinny128-cipher.c"
#include "skinny128-parallel.c"
#define BLK 16
#define P(x) skinny128_parallel_ecb_##x
#define OBJ_T Skinny128ParallelECB_t
#define CTX_T Skinny128Key_t
/* batch stubs: the data they would produce is C07's subject; here they only leave a mark in the output so that a call made
   before the arguments are validated is visible */
void _skinny128_parallel_encrypt_vec128(void *o, const void *i, const Skinny128Key_t *k) { (void)i; (void)k; memset(o, 0xEE, 64); }
void _skinny128_parallel_decrypt_vec128(void *o, const void *i, const Skinny128Key_t *k) { (void)i; (void)k; memset(o, 0xEE, 64); }
void _skinny128_parallel_encrypt_vec256(void *o, const void *i, const Skinny128Key_t *k) { (void)i; (void)k; memset(o, 0xEE, 128); }
void _skinny128_parallel_decrypt_vec256(void *o, const void *i, const Skinny128Key_t *k) { (void)i; (void)k; memset(o, 0xEE, 128); }
#elif CIPHER == 2
#include "skinny64-cipher.c"
#include "skinny64-parallel.c"
#define BLK 8
#define P(x) skinny64_parallel_ecb_##x
#define OBJ_T Skinny64ParallelECB_t
#define CTX_T Skinny64Key_t
void _skinny64_parallel_encrypt_vec128(void *o, const void *i, const Skinny64Key_t *k) { (void)i; (void)k; memset(o, 0xEE, 64); }
void _skinny64_parallel_decrypt_vec128(void *o, const void *i, const Skinny64Key_t *k) { (void)i; (void)k; memset(o, 0xEE, 64); }
#else
#include "mantis-cipher.c"
#include "mantis-parallel.c"
#define BLK 8
#define P(x) mantis_parallel_ecb_##x
#define OBJ_T MantisParallelECB_t
#define CTX_T MantisKey_t
void _mantis_parallel_crypt_vec128(void *o, const void *i, const void *t, const MantisKey_t *k) { (void)i; (void)t; (void)k; memset(o, 0xEE, 64); }
#endif
#undef calloc
#undef free

#define MAXBLK 6
static void *blk_ptr[MAXBLK]; static size_t blk_size[MAXBLK]; static int blk_freed[MAXBLK];
static unsigned n_alloc, n_live, n_badfree, n_dirty;
uint8_t sym_allocfail[MAXBLK];
void *vh_calloc(size_t n, size_t sz)
{
    if (n_alloc >= MAXBLK) return 0;
    if (sym_allocfail[n_alloc]) { n_alloc++; return 0; }
    void *p = calloc(n, sz);
    ASSUME(p != 0);
    blk_ptr[n_alloc] = p; blk_size[n_alloc] = n * sz; blk_freed[n_alloc] = 0; n_alloc++; n_live++;
    return p;
}
void vh_free(void *p)
{
    if (!p) return;
    int k = -1;
    for (int i = 0; i < MAXBLK; i++) if (i < (int)n_alloc && blk_ptr[i] == p && !blk_freed[i]) k = i;
    if (k < 0) { n_badfree++; return; }
    for (size_t i = 0; i < blk_size[k]; i++) if (((uint8_t *)p)[i] != 0) n_dirty++;
    blk_freed[k] = 1; n_live--;
    free(p);
}

#ifdef OB_ERR
#define NB 18                                  /* room for two full 128-byte batches and a partial block */
#else
#define NB 3                                   /* blocks per processing call in these obligations */
#endif
uint8_t sym_key[48], sym_data[NB * BLK], sym_tw[NB * BLK], sym_handle[sizeof(OBJ_T)], sym_fill[sizeof(CTX_T)];
static void sym_inputs(void) { SYM_U8A(sym_key); SYM_U8A(sym_data); SYM_U8A(sym_tw); SYM_U8A(sym_handle); SYM_U8A(sym_allocfail); SYM_VAL(sym_has128); SYM_VAL(sym_has256); }

static int op_set_key(OBJ_T *o, const uint8_t *key, unsigned len)
{
#if CIPHER == 3
    return P(set_key)(o, key, len, 5 + (len & 3), (int)(len >> 4) & 1);
#else
    return P(set_key)(o, key, len);
#endif
}
static int op_enc(OBJ_T *o, uint8_t *out, const uint8_t *in, size_t n)
{
#if CIPHER == 3
    return P(crypt)(out, in, sym_tw, n, o);
#else
    return P(encrypt)(out, in, n, o);
#endif
}
static int op_dec(OBJ_T *o, uint8_t *out, const uint8_t *in, size_t n)
{
#if CIPHER == 3
#ifndef OB_ERR
    P(swap_modes)(o);
#endif
    return P(crypt)(out, in, sym_tw, n, o);
#else
    return P(decrypt)(out, in, n, o);
#endif
}

#if defined(OB_SEQ)
void harness(void)
{
    static const char seq[] = SEQ; OBJ_T o[2]; int live[2] = {0, 0}; uint8_t out[NB * BLK];
    HARNESS_BEGIN();
    /* the data of a life-cycle sequence is concrete: by C08 no branch and no address of the library depends on key,
       tweak, counter or data bytes, so allocation, release and return-value behaviour cannot depend on them either;
       symbolic data here would only make the solver re-derive the ciphers (measured: > 15 min per sequence) */
    for (unsigned i = 0; i < sizeof sym_key; i++) sym_key[i] = (uint8_t)(0x11 * i + 7);
    for (unsigned i = 0; i < sizeof sym_data; i++) sym_data[i] = (uint8_t)(0x35 * i + 1);
    for (unsigned i = 0; i < sizeof sym_tw; i++) sym_tw[i] = (uint8_t)(0x5b * i + 3);
    sym_has128 = (BACKSEL >= 1); sym_has256 = (BACKSEL >= 2);   /* which back end serves the objects: enumerated by the plan */
    memset(o, 0, sizeof o);
    for (unsigned s = 0; s + 1 < sizeof seq; s++) {
        char c = seq[s]; int k = (c >= 'a'); char u = (char)(k ? c - 32 : c); int r;
        if (u == 'I') { if (live[k]) P(cleanup)(&o[k]); r = P(init)(&o[k]); CHECK(r == 1, "init succeeds when memory is available"); live[k] = 1;
                        CHECK(o[k].parallel_size > 0 && o[k].parallel_size % BLK == 0, "advertised parallel size is a positive multiple of the block size"); }
        else if (u == 'X') { P(cleanup)(&o[k]); live[k] = 0; CHECK(o[k].ctx == 0, "cleanup leaves the handle without a context"); }
        else if (u == 'Z') { if (!live[k]) memset(&o[k], 0, sizeof o[k]); }
        else {
            if (u == 'K') r = op_set_key(&o[k], sym_key, CIPHER == 3 ? 16 : BLK * (1 + (s % 3)));
            else if (u == 'E') r = op_enc(&o[k], out, sym_data, NB * BLK);
            else r = op_dec(&o[k], out, sym_data, NB * BLK);
            CHECK(r == (live[k] ? 1 : 0), "a call on a live object returns 1, on a zeroed or cleaned-up object 0");
        }
    }
    P(cleanup)(&o[0]); P(cleanup)(&o[1]); P(cleanup)(0);
    CHECK(n_live == 0, "every allocation is released exactly once: nothing is live at the end");
    CHECK(n_badfree == 0, "nothing is freed twice and no foreign pointer is freed");
    CHECK(n_dirty == 0, "every released block was fully zeroed first");
    WITNESS_POINT();
}
#elif defined(OB_WIPE)
void harness(void)
{
    OBJ_T o;
    HARNESS_BEGIN();
    sym_inputs();
    for (int i = 0; i < MAXBLK; i++) ASSUME(sym_allocfail[i] == 0);
    memset(&o, 0, sizeof o);
    CHECK(P(init)(&o) == 1, "init succeeds");
    { SYM_U8A(sym_fill); memcpy(o.ctx, sym_fill, sizeof(CTX_T)); }    /* arbitrary key schedule content */
    ((CTX_T *)o.ctx)->rounds = WROUNDS;      /* representation invariant: a round count the API can produce (enumerated by the plan: a symbolic
                                                count would drive loops in a cleanup that wipes per round) */
    P(cleanup)(&o);
    CHECK(n_live == 0 && n_badfree == 0, "the context is released exactly once");
    CHECK(n_dirty == 0, "every byte of the key schedule is zero before free");
    CHECK(o.ctx == 0, "handle has no context any more");
    WITNESS_POINT();
}
#elif defined(OB_ALLOCFAIL)
void harness(void)
{
    OBJ_T o;
    HARNESS_BEGIN();
    sym_inputs();
    ASSUME(sym_allocfail[0] != 0);
    memcpy(&o, sym_handle, sizeof o);                         /* whatever the caller's object contained before */
    CHECK(P(init)(&o) == 0, "init reports the allocation failure");
    CHECK(n_live == 0, "nothing is leaked");
    CHECK(o.ctx == 0, "the handle is left inert (no context), whatever it contained before");
    WITNESS_POINT();
}
#elif defined(OB_INITNULL)
void harness(void)
{
    HARNESS_BEGIN();
    sym_inputs();
    CHECK(P(init)(0) == 0, "init of a null object returns 0");
    CHECK(n_live == 0, "nothing is leaked");
    WITNESS_POINT();
}
#elif defined(OB_INERT)
void harness(void)
{
    OBJ_T o, before; uint8_t out[NB * BLK], outb[NB * BLK];
    HARNESS_BEGIN();
    sym_inputs();
    memcpy(&o, sym_handle, sizeof o); o.ctx = 0;               /* zeroed / failed init / cleaned up: no context, rest arbitrary */
    before = o; SYM_U8A(out); memcpy(outb, out, sizeof out);
    CHECK(op_set_key(&o, sym_key, 16) == 0, "set_key on an inert object returns 0");
    CHECK(op_enc(&o, out, sym_data, NB * BLK) == 0, "encrypt on an inert object returns 0");
    CHECK(op_dec(&o, out, sym_data, NB * BLK) == 0, "decrypt on an inert object returns 0");
    CHECK_BYTES_EQ(out, outb, sizeof out, "a failing call writes nothing to the output buffer");
    CHECK_BYTES_EQ(&o, &before, sizeof o, "a failing call leaves the handle unchanged");
    P(cleanup)(&o);
    CHECK(n_badfree == 0 && n_live == 0 && n_alloc == 0, "cleanup of an inert object frees nothing");
    WITNESS_POINT();
}
#elif defined(OB_ERR)
void harness(void)
{
    OBJ_T o, before; static CTX_T ctx, ctxb; uint8_t out[NB * BLK], outb[NB * BLK];
    HARNESS_BEGIN();
    sym_inputs();
    { CTX_T nd; ctx = nd; }
    for (int i = 0; i < MAXBLK; i++) ASSUME(sym_allocfail[i] == 0);
#ifdef BACKSEL
    sym_has128 = (BACKSEL >= 1); sym_has256 = (BACKSEL >= 2);      /* back end enumerated: a symbolic batch size would drive the driver loops */
#endif
    memcpy(&o, sym_handle, sizeof o);
    { OBJ_T t; memset(&t, 0, sizeof t); CHECK(P(init)(&t) == 1, "init succeeds"); o.vtable = t.vtable; o.parallel_size = t.parallel_size; vh_free(t.ctx); }   /* back end chosen symbolically */
    o.ctx = &ctx;
    before = o; ctxb = ctx; SYM_U8A(out); memcpy(outb, out, sizeof out);
    int r = -1;
#if ERRCASE == 1
    r = op_set_key(0, sym_key, 16);                                      /* null object */
#elif ERRCASE == 2
    r = op_set_key(&o, 0, 16);                                           /* null key */
#elif ERRCASE == 3
    r = op_set_key(&o, sym_key, CIPHER == 3 ? 17 : BLK - 1);             /* bad key length */
#elif ERRCASE == 4
    r = op_set_key(&o, sym_key, CIPHER == 3 ? 15 : 3 * BLK + 1);
#elif ERRCASE == 5
    r = op_enc(0, out, sym_data, NB * BLK);                              /* null object */
#elif ERRCASE == 6
    r = op_enc(&o, out, sym_data, NB * BLK - 1);                         /* not a whole number of blocks */
#elif ERRCASE == 7
    r = op_enc(&o, out, sym_data, 1);
#elif ERRCASE == 8
#if CIPHER == 3
    r = P(set_key)(&o, sym_key, 16, 9, 1);                               /* unsupported round count */
#else
    r = P(decrypt)(out, sym_data, BLK + 1, &o);
#endif
#elif ERRCASE == 9
#if CIPHER == 3
    r = P(set_key)(&o, sym_key, 16, 4, 0);
#else
    r = P(decrypt)(out, sym_data, NB * BLK, 0);
#endif
#elif ERRCASE == 10
    r = op_enc(&o, out, sym_data, 2 * 128 + 1);                         /* more than two full batches, not a whole number of blocks */
#elif ERRCASE == 11
    r = op_dec(&o, out, sym_data, 128 + BLK + 3);
#elif ERRCASE == 12
    r = op_dec(&o, out, sym_data, 64 + 1);
#endif
    CHECK(r == 0, "an invalid call returns 0");
    CHECK_BYTES_EQ(&ctx, &ctxb, sizeof ctx, "an invalid call leaves the key schedule byte-identical");
    CHECK_BYTES_EQ(&o, &before, sizeof o, "an invalid call leaves the handle unchanged");
    CHECK_BYTES_EQ(out, outb, sizeof out, "an invalid call writes nothing to the caller's buffers");
    WITNESS_POINT();
}
#else
#error "no obligation"
#endif
#include "vh_end.h"
