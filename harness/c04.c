/* C04 - tweakable SKINNY.  Parameters: CB, KEYLEN (BLK or 2*BLK), OB_BASE | OB_STEP (TLEN) | OB_NULL | OB_E2E (DIR, TLEN) |
 * OB_BADLEN | OB_CTR_STEP (TLEN) | OB_CTR_NULL */
#include "vh.h"
#include "cipher_sel.h"
#include "ref_skinny.h"
#if defined(OB_CTR_STEP) || defined(OB_CTR_NULL) || defined(OB_CTR_BASE)
#include "skinny-internal.c"
#if CB == 8
#include "skinny128-ctr-internal.h"
Skinny128CTRVtable_t const _skinny128_ctr_vec128; Skinny128CTRVtable_t const _skinny128_ctr_vec256;
#include "skinny128-ctr.c"
#define CTR_T Skinny128CTR_t
#define CTX_T Skinny128CTRCtx_t
#define CTR_DEF skinny128_ctr_def
#define CTR_SET_TWEAK skinny128_ctr_set_tweak
#define CTR_SET_TKEY skinny128_ctr_set_tweaked_key
#else
#include "skinny64-ctr-internal.h"
Skinny64CTRVtable_t const _skinny64_ctr_vec128;
#include "skinny64-ctr.c"
#define CTR_T Skinny64CTR_t
#define CTX_T Skinny64CTRCtx_t
#define CTR_DEF skinny64_ctr_def
#define CTR_SET_TWEAK skinny64_ctr_set_tweak
#define CTR_SET_TKEY skinny64_ctr_set_tweaked_key
#endif
#endif
#define Z (1 + KEYLEN / BLK)
#define ROUNDS ROUNDS_FOR_Z(Z)

uint8_t sym_key[KEYLEN], sym_told[BLK], sym_tnew[BLK], sym_in[BLK];

/* put tk into the state described by Inv(tk, K, T): built from the model, not by running the code under test */
static void make_inv(TKEY_T *tk, const uint8_t *key, const uint8_t *tweak)
{
    uint8_t tkb[3 * BLK], rk[REF_MAX_ROUNDS][8], packed[RKB];
    memcpy(tkb, tweak, BLK); memcpy(tkb + BLK, key, KEYLEN);
    ref_skinny_roundkeys(CB, tkb, Z, ROUNDS, 1, rk);
    tk->ks.rounds = ROUNDS;
    for (int r = 0; r < ROUNDS; r++) { ref_pack_rk(CB, packed, rk[r]); vh_store_rk(&tk->ks, (unsigned)r, packed); }
    memcpy(tk->tweak, tweak, BLK);
}
/* assert Inv(tk, K, T) */
static void check_inv(const TKEY_T *tk, const uint8_t *key, const uint8_t *tweak)
{
    uint8_t tkb[3 * BLK], rk[REF_MAX_ROUNDS][8], exp[RKB], got[RKB];
    memcpy(tkb, tweak, BLK); memcpy(tkb + BLK, key, KEYLEN);
    ref_skinny_roundkeys(CB, tkb, Z, ROUNDS, 1, rk);
    CHECK(tk->ks.rounds == ROUNDS, "tweaked schedule has the round count of the next larger tweakey size");
    for (int r = 0; r < ROUNDS; r++) {
        ref_pack_rk(CB, exp, rk[r]); vh_load_rk(&tk->ks, (unsigned)r, got);
        CHECK_BYTES_EQ(got, exp, RKB, "schedule equals the specification schedule with TK1 = latest tweak (domain bit set), TK2/TK3 = key");
    }
    CHECK_BYTES_EQ(tk->tweak, tweak, BLK, "stored tweak equals the latest tweak, zero-padded");
}

void harness(void)
{
    static TKEY_T tk; uint8_t zero[BLK] = {0}, padded[BLK], out[BLK], exp[BLK], tkb[3 * BLK];
    HARNESS_BEGIN();
    SYM_U8A(sym_key); SYM_U8A(sym_told); SYM_U8A(sym_tnew); SYM_U8A(sym_in);
    (void)zero; (void)padded; (void)out; (void)exp; (void)tkb;
#if defined(OB_BASE)
    { TKEY_T nd; tk = nd; }
    CHECK(SET_TKEY(&tk, sym_key, KEYLEN) == 1, "set_tweaked_key accepts the key");
    check_inv(&tk, sym_key, zero);                      /* a freshly keyed schedule has the all-zero tweak */
#elif defined(OB_STEP)
    make_inv(&tk, sym_key, sym_told);
    { uint8_t *t = malloc(TLEN); ASSUME(t != 0); memcpy(t, sym_tnew, TLEN);        /* exact-extent tweak buffer */
      CHECK(SET_TWEAK(&tk, t, TLEN) == 1, "set_tweak accepts a length in 1..block size"); free(t); }
    memset(padded, 0, BLK); memcpy(padded, sym_tnew, TLEN);
    check_inv(&tk, sym_key, padded);                    /* only the key and the latest tweak matter */
#elif defined(OB_NULL)
    make_inv(&tk, sym_key, sym_told);
    CHECK(SET_TWEAK(&tk, 0, TLEN) == 1, "set_tweak accepts a null tweak pointer");
    check_inv(&tk, sym_key, zero);                      /* null pointer means the all-zero tweak */
#elif defined(OB_BADLEN)
    make_inv(&tk, sym_key, sym_told);
    { static TKEY_T before; before = tk; unsigned n = BADLEN;
      CHECK(SET_TWEAK(&tk, sym_tnew, n) == 0, "a tweak length outside 1..block size is rejected");
      CHECK_BYTES_EQ(&tk, &before, sizeof tk, "a rejected tweak leaves the schedule untouched"); }
#elif defined(OB_E2E)
    { TKEY_T nd; tk = nd; }
    CHECK(SET_TKEY(&tk, sym_key, KEYLEN) == 1, "set_tweaked_key accepts the key");
    CHECK(SET_TWEAK(&tk, sym_told, BLK) == 1, "first tweak accepted");          /* an earlier tweak that must not matter */
    CHECK(SET_TWEAK(&tk, sym_tnew, TLEN) == 1, "second tweak accepted");
    memset(tkb, 0, sizeof tkb); memcpy(tkb, sym_tnew, TLEN); memcpy(tkb + BLK, sym_key, KEYLEN);
#if DIR == 0
    ENC(out, sym_in, &tk.ks); ref_skinny_encrypt(CB, exp, sym_in, tkb, Z, 1);
    CHECK_BYTES_EQ(out, exp, BLK, "tweaked encryption equals the specification cipher with the tweak in TK1");
#else
    DEC(out, sym_in, &tk.ks); ref_skinny_decrypt(CB, exp, sym_in, tkb, Z, 1);
    CHECK_BYTES_EQ(out, exp, BLK, "tweaked decryption equals the specification inverse with the tweak in TK1");
#endif
#elif defined(OB_CTR_STEP) || defined(OB_CTR_NULL) || defined(OB_CTR_BASE)
    { static CTX_T ctx; CTR_T ctr; CTX_T nd; ctx = nd;
      ctr.vtable = &CTR_DEF; ctr.ctx = &ctx;
#if defined(OB_CTR_BASE)
      CHECK(CTR_SET_TKEY(&ctr, sym_key, KEYLEN) == 1, "ctr_set_tweaked_key accepts the key");
      check_inv(&ctx.kt, sym_key, zero);
#else
      make_inv(&ctx.kt, sym_key, sym_told);
      ASSUME(ctx.offset <= BLK);
#if defined(OB_CTR_STEP)
      CHECK(CTR_SET_TWEAK(&ctr, sym_tnew, TLEN) == 1, "ctr_set_tweak accepts a length in 1..block size");
      memset(padded, 0, BLK); memcpy(padded, sym_tnew, TLEN);
      check_inv(&ctx.kt, sym_key, padded);
#else
      CHECK(CTR_SET_TWEAK(&ctr, 0, TLEN) == 1, "ctr_set_tweak accepts a null tweak pointer");
      check_inv(&ctx.kt, sym_key, zero);
#endif
#endif
      CHECK(ctx.offset >= BLK, "buffered keystream of the old key/tweak is discarded"); }
#else
#error "no obligation"
#endif
    WITNESS_POINT();
}
#include <stdlib.h>
#include "vh_end.h"
