/* lc.c - object life cycle (C15), allocation failure (C16), wipe before free (C17) and the error contract (C14)
 * for CTR objects of every back end.  Parameters: CIPHER, VEC, and one of
 *   OB_SEQ  with SEQ="..." : a concrete operation sequence over two objects (letters below), data symbolic
 *   OB_WIPE                 : cleanup from an arbitrary context content
 *   OB_ALLOCFAIL            : init when the allocation fails, arbitrary prior handle content
 *   OB_INERT                : every call on an inert handle (zeroed / failed init / cleaned up)
 *   OB_ERR with ERRCASE     : one invalid-argument class on a live, arbitrary, mid-stream object
 */
#define TRACK_ALLOC
#define NR 1
#include "ctr_model.h"
#undef calloc
#undef free
#if VEC
#define L LANES
#else
#define L 1
#endif
#define B (BLK * L)

/* ---------------- tracking allocator ---------------- */
#define MAXBLK 6
static void *blk_ptr[MAXBLK]; static size_t blk_size[MAXBLK]; static int blk_freed[MAXBLK];
static unsigned n_alloc, n_live, n_badfree, n_dirty;
uint8_t sym_allocfail[MAXBLK];
void *vh_calloc(size_t n, size_t sz)
{
    if (n_alloc >= MAXBLK) return 0;
    if (sym_allocfail[n_alloc]) { n_alloc++; return 0; }
    void *p = calloc(n, sz);
    ASSUME(p != 0);                                  /* failure is modelled by sym_allocfail only */
    blk_ptr[n_alloc] = p; blk_size[n_alloc] = n * sz; blk_freed[n_alloc] = 0; n_alloc++; n_live++;
    return p;
}
void vh_free(void *p)
{
    if (!p) return;
    int k = -1;
    for (int i = 0; i < MAXBLK; i++) if (i < (int)n_alloc && blk_ptr[i] == p && !blk_freed[i]) k = i;
    if (k < 0) { n_badfree++; return; }             /* double free, interior or foreign pointer */
    for (size_t i = 0; i < blk_size[k]; i++) if (((uint8_t *)p)[i] != 0) n_dirty++;      /* C17: every byte wiped before release */
    blk_freed[k] = 1; n_live--;
    free(p);
}
#if VEC
#ifndef CALLOC_SHIFT
#define CALLOC_SHIFT 0
#endif
uint8_t *ll_skinny_calloc(uint64_t size, uint8_t *base_ptr)   /* contract model of skinny_calloc, see C05 */
{
    uint8_t *p = vh_calloc(1, size + 31);
    if (!p) return 0;
    *(void **)base_ptr = p;
    return p + CALLOC_SHIFT;
}
#endif

/* ---------------- operations on an object of the selected back end ---------------- */
#if !VEC
#define VTABLE_UNDER_TEST (&GEN_VT)
#elif CIPHER == 1 && VEC == 128
#define VTABLE_UNDER_TEST (&_skinny128_ctr_vec128)
#elif CIPHER == 1
#define VTABLE_UNDER_TEST (&_skinny128_ctr_vec256)
#elif CIPHER == 2
#define VTABLE_UNDER_TEST (&_skinny64_ctr_vec128)
#else
#define VTABLE_UNDER_TEST (&_mantis_ctr_vec128)
#endif
typedef struct { const void *vtable; void *ctx; } obj_t;
uint8_t sym_key[48], sym_cnt[BLK], sym_tw[BLK], sym_data[2 * B + 3], sym_handle[sizeof(obj_t)];
#ifdef OB_WIPE
uint8_t sym_fill[800];
#endif

/* every operation goes through the public function: the real dispatcher (native) and, behind the vtable, the back end
   under test (generic: native; vector: clang IR reached through the bridging vtable of ctr_model.h) */
#undef VEC_DIRECT
static int op_init(obj_t *o) { return PUB(init)((HANDLE_T *)o); }
static void op_cleanup(obj_t *o) { PUB(cleanup)((HANDLE_T *)o); }
static int op_set_key(obj_t *o, const uint8_t *key, unsigned len)
{
#if CIPHER == 3
    return PUB(set_key)((HANDLE_T *)o, key, len, 5 + (len & 3));
#else
    return PUB(set_key)((HANDLE_T *)o, key, len);
#endif
}
static int op_set_tweak(obj_t *o, const uint8_t *t, unsigned len)
{
    return PUB(set_tweak)((HANDLE_T *)o, t, len);
}
#if CIPHER != 3
static int op_set_tkey(obj_t *o, const uint8_t *key, unsigned len)
{
    return PUB(set_tweaked_key)((HANDLE_T *)o, key, len);
}
#endif
static int op_set_counter(obj_t *o, const uint8_t *c, unsigned len)
{
    return PUB(set_counter)((HANDLE_T *)o, c, len);
}
static int op_encrypt(obj_t *o, uint8_t *out, const uint8_t *in, size_t n)
{
    return PUB(encrypt)(out, in, n, (HANDLE_T *)o);
}
#if VEC
#define CTX_SIZE V_SIZE
#else
#define CTX_SIZE sizeof(GCTX_T)
#endif

static void sym_inputs(void)
{
    SYM_U8A(sym_key); SYM_U8A(sym_cnt); SYM_U8A(sym_tw); SYM_U8A(sym_data); SYM_U8A(sym_allocfail); SYM_U8A(sym_handle);
}

#if defined(OB_SEQ)
/* letters: I init, K set_key, T set_tweak(ed key), C set_counter, P process, X cleanup, Z zero the handle,
   lower case = the same on a second object.  Expected results follow from "initialised and not cleaned up". */
void harness(void)
{
    static const char seq[] = SEQ;
    obj_t o[2]; int live[2] = {0, 0}; uint8_t out[2 * B + 3];
    HARNESS_BEGIN();
    /* the data of a life-cycle sequence is concrete: by C08 no branch and no address of the library depends on key,
       tweak, counter or data bytes, so allocation, release and return-value behaviour cannot depend on them either;
       symbolic data here would only make the solver re-derive the ciphers (measured: > 15 min per sequence) */
    for (unsigned i = 0; i < sizeof sym_key; i++) sym_key[i] = (uint8_t)(0x11 * i + 7);
    for (unsigned i = 0; i < sizeof sym_data; i++) sym_data[i] = (uint8_t)(0x35 * i + 1);
    for (unsigned i = 0; i < sizeof sym_tw; i++) sym_tw[i] = (uint8_t)(0x5b * i + 3);
    memset(o, 0, sizeof o);
    for (unsigned s = 0; s + 1 < sizeof seq; s++) {
        char c = seq[s]; int k = (c >= 'a'); char u = (char)(k ? c - 32 : c); int r;
        if (u == 'I') { if (live[k]) op_cleanup(&o[k]); r = op_init(&o[k]); CHECK(r == 1, "init succeeds when memory is available"); live[k] = 1; }
        else if (u == 'X') { op_cleanup(&o[k]); live[k] = 0; CHECK(o[k].ctx == 0 && o[k].vtable == 0, "cleanup leaves the handle cleared"); }
        else if (u == 'Z') { if (!live[k]) memset(&o[k], 0, sizeof o[k]); }
        else {
            if (u == 'B') { r = op_set_key(&o[k], sym_key, CIPHER == 3 ? 15 : BLK - 1); CHECK(r == 0, "a rejected key returns 0"); continue; }   /* invalid call in the middle of the history */
            if (u == 'K') r = op_set_key(&o[k], sym_key, CIPHER == 3 ? 16 : BLK * (1 + (s % 3)));
#if CIPHER == 3
            else if (u == 'T') r = op_set_tweak(&o[k], sym_tw, BLK);
#else
            else if (u == 'T') { r = op_set_tkey(&o[k], sym_key, BLK * (1 + (s % 2))); if (r) r = op_set_tweak(&o[k], sym_tw, 1 + (s % BLK)); }
#endif
            else if (u == 'C') { for (int i = 0; i < BLK; i++) sym_cnt[i] = (uint8_t)(0xF0 + i); r = op_set_counter(&o[k], sym_cnt, s % (BLK + 1)); }
            else r = op_encrypt(&o[k], out, sym_data, B + 3);
            CHECK(r == (live[k] ? 1 : 0), "a call on a live object returns 1, on a zeroed or cleaned-up object 0");
        }
    }
    op_cleanup(&o[0]); op_cleanup(&o[1]); op_cleanup(0);
    CHECK(n_live == 0, "every allocation is released exactly once: nothing is live at the end");
    CHECK(n_badfree == 0, "nothing is freed twice and no foreign pointer is freed");
    CHECK(n_dirty == 0, "every released block was fully zeroed first");
    WITNESS_POINT();
}
#elif defined(OB_WIPE)
/* cleanup from an arbitrary context content (over-approximates every history): every byte of the block,
   alignment slack included, is zero when it reaches free() */
void harness(void)
{
    obj_t o;
    HARNESS_BEGIN();
    sym_inputs();
    for (int i = 0; i < MAXBLK; i++) ASSUME(sym_allocfail[i] == 0);
    memset(&o, 0, sizeof o);
    CHECK(op_init(&o) == 1, "init succeeds");
    { static uint8_t nd[CTX_SIZE]; SYM_U8A(sym_fill); memcpy(nd, sym_fill, CTX_SIZE);
#if VEC
      void *base = *(void **)((uint8_t *)o.ctx + V_BASE);
      memcpy(o.ctx, nd, CTX_SIZE);
      *(void **)((uint8_t *)o.ctx + V_BASE) = base;           /* representation invariant: base_ptr is what init stored */
#else
      memcpy(o.ctx, nd, CTX_SIZE);
#endif
    }
    /* representation invariant of a live context: a round count the API can produce (enumerated by the plan) */
#if CIPHER == 3
    ((MantisKey_t *)o.ctx)->rounds = WROUNDS;
#elif CIPHER == 1
    ((Skinny128Key_t *)o.ctx)->rounds = WROUNDS;
#else
    ((Skinny64Key_t *)o.ctx)->rounds = WROUNDS;
#endif
    op_cleanup(&o);
    CHECK(n_live == 0 && n_badfree == 0, "the context is released exactly once");
    CHECK(n_dirty == 0, "every byte of the context (round keys, tweak, counters, buffered keystream, slack) is zero before free");
    CHECK(o.ctx == 0 && o.vtable == 0, "handle cleared");
    WITNESS_POINT();
}
#elif defined(OB_ALLOCFAIL)
/* init when calloc fails, handle memory arbitrary before the call: 0 returned, nothing leaked, handle inert */
void harness(void)
{
    obj_t o;
    HARNESS_BEGIN();
    sym_inputs();
    ASSUME(sym_allocfail[0] != 0);
    memcpy(&o, sym_handle, sizeof o);                 /* whatever the caller's object contained before */
    int r = PUB(init)((HANDLE_T *)&o);                 /* real dispatcher + the init of the back end under test */
    CHECK(r == 0, "init reports the allocation failure");
    CHECK(n_live == 0, "nothing is leaked");
    CHECK(o.vtable == 0 || o.ctx == 0, "the handle is left inert (no back end or no context), whatever it contained before");
    WITNESS_POINT();
}
#elif defined(OB_INERT)
/* every call on an inert handle returns 0 / does nothing, touches no memory it was not given */
void harness(void)
{
    obj_t o, before; uint8_t out[B + 3], outb[B + 3];
    HARNESS_BEGIN();
    sym_inputs();
    memcpy(&o, sym_handle, sizeof o);
#if INERT_KIND == 0
    o.vtable = 0;                                     /* no back end (zeroed, cleaned up, failed init): ctx arbitrary */
#else
    ASSUME(o.vtable != 0); o.ctx = 0;                  /* back end chosen but no context */
    o.vtable = VTABLE_UNDER_TEST;
#endif
    before = o; SYM_U8A(out); memcpy(outb, out, sizeof out);
    CHECK(op_set_key(&o, sym_key, CIPHER == 3 ? 16 : BLK) == 0, "set_key on an inert object returns 0");
#if CIPHER != 3
    CHECK(op_set_tkey(&o, sym_key, BLK) == 0, "set_tweaked_key on an inert object returns 0");
#endif
    CHECK(op_set_tweak(&o, sym_tw, BLK) == 0, "set_tweak on an inert object returns 0");
    CHECK(op_set_counter(&o, sym_cnt, BLK) == 0, "set_counter on an inert object returns 0");
    CHECK(op_encrypt(&o, out, sym_data, B + 3) == 0, "encrypt on an inert object returns 0");
    CHECK_BYTES_EQ(out, outb, sizeof out, "a failing call writes nothing to the output buffer");
    CHECK(o.ctx == before.ctx && o.vtable == before.vtable, "a failing call leaves the handle unchanged");
    op_cleanup(&o);
    CHECK(n_badfree == 0 && n_live == 0 && n_alloc == 0, "cleanup of an inert object frees nothing");
    WITNESS_POINT();
}
#elif defined(OB_ERR)
/* one invalid-argument class on a live object whose context is arbitrary: 0 returned, context, handle and buffers unchanged */
void harness(void)
{
    obj_t o, before; static uint8_t ctx[CTX_SIZE] __attribute__((aligned(32))), ctxb[CTX_SIZE]; uint8_t out[B + 3], outb[B + 3];
    HARNESS_BEGIN();
    sym_inputs();
    { uint8_t nd[CTX_SIZE]; memcpy(ctx, nd, CTX_SIZE); }
    /* representation invariants: keystream offset within the batch, a round count the API can produce (concrete: a
       symbolic count would make an implementation that wrongly proceeds loop over it) */
#if VEC
    o.vtable = VTABLE_UNDER_TEST; ASSUME(V_OFF(ctx) <= B);
#else
    o.vtable = VTABLE_UNDER_TEST; ASSUME(((GCTX_T *)ctx)->offset <= B);
#endif
#if CIPHER == 3
    ((MantisKey_t *)ctx)->rounds = 5;
#elif CIPHER == 1
    ((Skinny128Key_t *)ctx)->rounds = 48;
#else
    ((Skinny64Key_t *)ctx)->rounds = 36;
#endif
    o.ctx = ctx; before = o; memcpy(ctxb, ctx, CTX_SIZE); SYM_U8A(out); memcpy(outb, out, sizeof out);
    int r = -1;
#if ERRCASE == 1
    r = op_set_key(&o, 0, CIPHER == 3 ? 16 : BLK);                                   /* null key */
#elif ERRCASE == 2
    r = op_set_key(&o, sym_key, CIPHER == 3 ? 15 : BLK - 1);                           /* key too short */
#elif ERRCASE == 3
    r = op_set_key(&o, sym_key, CIPHER == 3 ? 17 : 3 * BLK + 1);                       /* key too long */
#elif ERRCASE == 4
#if CIPHER == 3
    r = PUB(set_key)((HANDLE_T *)(VEC ? 0 : &o), sym_key, 16, 4);                       /* unsupported round count (generic path) */
    if (VEC) r = 0;
#else
    r = op_set_tkey(&o, 0, BLK);                                                      /* null key, tweaked */
#endif
#elif ERRCASE == 5
#if CIPHER == 3
    r = op_set_tweak(&o, sym_tw, 7);                                                  /* Mantis tweak must be 8 bytes */
#else
    r = op_set_tkey(&o, sym_key, 2 * BLK + 1);                                        /* tweaked key too long */
#endif
#elif ERRCASE == 6
    r = op_set_tweak(&o, sym_tw, 0);                                                  /* tweak length 0 */
#elif ERRCASE == 7
    r = op_set_tweak(&o, sym_tw, BLK + 1);                                            /* tweak too long */
#elif ERRCASE == 8
    r = op_set_counter(&o, sym_cnt, BLK + 1);                                         /* counter too long */
#elif ERRCASE == 9
    r = op_encrypt(&o, 0, sym_data, B + 3);                                           /* null output */
#elif ERRCASE == 10
    r = op_encrypt(&o, out, 0, B + 3);                                                /* null input */
#elif ERRCASE == 11
    r = op_set_counter(&o, sym_cnt, 0xFFFFFFFFu);                                     /* counter length far out of range */
#elif ERRCASE == 12
    r = op_set_tweak(&o, 0, 0);                                                       /* null tweak does not excuse a bad length */
#elif ERRCASE == 13
    r = op_set_tweak(&o, 0, BLK + 1);
#endif
    CHECK(r == 0, "an invalid call returns 0");
    CHECK_BYTES_EQ(ctx, ctxb, CTX_SIZE, "an invalid call leaves the context byte-identical");
    CHECK(o.ctx == before.ctx && o.vtable == before.vtable, "an invalid call leaves the handle unchanged");
    CHECK_BYTES_EQ(out, outb, sizeof out, "an invalid call writes nothing to the caller's buffers");
    WITNESS_POINT();
}
#else
#error "no obligation"
#endif
#include "vh_end.h"
