/* C18 - no hidden shared state; read-only objects may be shared (sequential frame conditions, see DESIGN).
 * The function under test comes from clang IR with the store hook live (WW_MODE): every store instruction executed by the
 * call, in the function or anything it calls, is checked not to target the objects the caller passed as pointer-to-const.
 * Afterwards those objects are also compared byte for byte.  Parameters: FN selects the function, CIPHER, VEC, NR, NBLK */
#include "vh.h"
#include <stdlib.h>
#define CT_MODE
#define WW_MODE
#include "ct.h"
const void *ww_obj[2]; size_t ww_size[2];
#if CIPHER == 1
#include "skinny128-cipher.h"
#include "skinny128-parallel.h"
#define BLK 16
#define KS_T Skinny128Key_t
#define OBJ_T Skinny128ParallelECB_t
#elif CIPHER == 2
#include "skinny64-cipher.h"
#include "skinny64-parallel.h"
#define BLK 8
#define KS_T Skinny64Key_t
#define OBJ_T Skinny64ParallelECB_t
#else
#include "mantis-cipher.h"
#include "mantis-parallel.h"
#define BLK 8
#define KS_T MantisKey_t
#define OBJ_T MantisParallelECB_t
#endif
void ll_skinny128_ecb_encrypt(uint8_t *, uint8_t *, uint8_t *); void ll_skinny128_ecb_decrypt(uint8_t *, uint8_t *, uint8_t *);
void ll_skinny64_ecb_encrypt(uint8_t *, uint8_t *, uint8_t *); void ll_skinny64_ecb_decrypt(uint8_t *, uint8_t *, uint8_t *);
void ll_mantis_ecb_crypt(uint8_t *, uint8_t *, uint8_t *); void ll_mantis_ecb_crypt_tweaked(uint8_t *, uint8_t *, uint8_t *, uint8_t *);
uint32_t ll_skinny128_parallel_ecb_encrypt(uint8_t *, uint8_t *, uint64_t, uint8_t *); uint32_t ll_skinny128_parallel_ecb_decrypt(uint8_t *, uint8_t *, uint64_t, uint8_t *);
uint32_t ll_skinny64_parallel_ecb_encrypt(uint8_t *, uint8_t *, uint64_t, uint8_t *); uint32_t ll_skinny64_parallel_ecb_decrypt(uint8_t *, uint8_t *, uint64_t, uint8_t *);
uint32_t ll_mantis_parallel_ecb_crypt(uint8_t *, uint8_t *, uint8_t *, uint64_t, uint8_t *);
extern uint8_t ll_skinny128_parallel_ecb_vec128[], ll_skinny128_parallel_ecb_vec256[], ll_skinny64_parallel_ecb_vec128[], ll_mantis_parallel_ecb_vec128[];
void ll2c_init_skinny128_parallel_c(void); void ll2c_init_skinny64_parallel_c(void); void ll2c_init_mantis_parallel_c(void);
#ifndef NBLK
#define NBLK 1
#endif
uint8_t sym_ks[sizeof(KS_T)], sym_in[NBLK * BLK], sym_tw[NBLK * BLK];
void harness(void)
{
    static KS_T ks, before; static OBJ_T e, ebefore; uint8_t out[NBLK * BLK];
    HARNESS_BEGIN();
    SYM_U8A(sym_ks); SYM_U8A(sym_in); SYM_U8A(sym_tw);
    memcpy(&ks, sym_ks, sizeof ks); ks.rounds = NR;                 /* arbitrary schedule content, public round count */
    before = ks;
    ww_obj[0] = &ks; ww_size[0] = sizeof ks;
#if FN >= 10
    /* parallel-ECB object served by back end VEC, shared read-only */
    e.ctx = &ks; e.vtable = 0; e.parallel_size = (CIPHER == 1 ? 4 : 8) * BLK;
#if VEC
#if CIPHER == 1 && VEC == 128
    ll2c_init_skinny128_parallel_c(); e.vtable = ll_skinny128_parallel_ecb_vec128;
#elif CIPHER == 1
    ll2c_init_skinny128_parallel_c(); e.vtable = ll_skinny128_parallel_ecb_vec256; e.parallel_size = 128;
#elif CIPHER == 2
    ll2c_init_skinny64_parallel_c(); e.vtable = ll_skinny64_parallel_ecb_vec128;
#else
    ll2c_init_mantis_parallel_c(); e.vtable = ll_mantis_parallel_ecb_vec128;
#endif
#endif
    ebefore = e; ww_obj[1] = &e; ww_size[1] = sizeof e;
#endif
#if FN == 1
#if CIPHER == 1
    ll_skinny128_ecb_encrypt(out, sym_in, (uint8_t *)&ks);
#elif CIPHER == 2
    ll_skinny64_ecb_encrypt(out, sym_in, (uint8_t *)&ks);
#else
    ll_mantis_ecb_crypt(out, sym_in, (uint8_t *)&ks);
#endif
#elif FN == 2
#if CIPHER == 1
    ll_skinny128_ecb_decrypt(out, sym_in, (uint8_t *)&ks);
#elif CIPHER == 2
    ll_skinny64_ecb_decrypt(out, sym_in, (uint8_t *)&ks);
#else
    ll_mantis_ecb_crypt_tweaked(out, sym_in, sym_tw, (uint8_t *)&ks);
#endif
#elif FN == 10
#if CIPHER == 1
    CHECK(ll_skinny128_parallel_ecb_encrypt(out, sym_in, NBLK * BLK, (uint8_t *)&e) == 1, "accepted");
#elif CIPHER == 2
    CHECK(ll_skinny64_parallel_ecb_encrypt(out, sym_in, NBLK * BLK, (uint8_t *)&e) == 1, "accepted");
#else
    CHECK(ll_mantis_parallel_ecb_crypt(out, sym_in, sym_tw, NBLK * BLK, (uint8_t *)&e) == 1, "accepted");
#endif
#elif FN == 11
#if CIPHER == 1
    CHECK(ll_skinny128_parallel_ecb_decrypt(out, sym_in, NBLK * BLK, (uint8_t *)&e) == 1, "accepted");
#elif CIPHER == 2
    CHECK(ll_skinny64_parallel_ecb_decrypt(out, sym_in, NBLK * BLK, (uint8_t *)&e) == 1, "accepted");
#endif
#endif
    CHECK_BYTES_EQ(&ks, &before, sizeof ks, "the key schedule passed as pointer-to-const is byte-identical after the call");
#if FN >= 10
    CHECK(e.ctx == ebefore.ctx && e.vtable == ebefore.vtable && e.parallel_size == ebefore.parallel_size, "the parallel-ECB object passed as pointer-to-const is unchanged after the call");
#endif
    WITNESS_POINT();
}
#include "vh_end.h"
