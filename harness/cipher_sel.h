/* selects SKINNY-128 (CB=8) or SKINNY-64 (CB=4) and includes the real cipher file from /repo/src */
#ifndef CIPHER_SEL_H
#define CIPHER_SEL_H
#ifndef CB
#define CB 8
#endif
#if CB == 8
#ifndef NO_CIPHER_INCLUDE
#include "skinny128-cipher.c"
#else
#include "skinny128-cipher.h"
#endif
#define BLK 16
#define MAXR 56
#define KEY_T Skinny128Key_t
#define TKEY_T Skinny128TweakedKey_t
#define SET_KEY skinny128_set_key
#define SET_TKEY skinny128_set_tweaked_key
#define SET_TWEAK skinny128_set_tweak
#define ENC skinny128_ecb_encrypt
#define DEC skinny128_ecb_decrypt
#define SBOX skinny128_sbox
#define INV_SBOX skinny128_inv_sbox
#define RKB 8            /* bytes of one schedule entry */
#define ROUNDS_FOR_Z(z) (40 + 8 * ((z) - 1))
#else
#ifndef NO_CIPHER_INCLUDE
#include "skinny64-cipher.c"
#else
#include "skinny64-cipher.h"
#endif
#define BLK 8
#define MAXR 40
#define KEY_T Skinny64Key_t
#define TKEY_T Skinny64TweakedKey_t
#define SET_KEY skinny64_set_key
#define SET_TKEY skinny64_set_tweaked_key
#define SET_TWEAK skinny64_set_tweak
#define ENC skinny64_ecb_encrypt
#define DEC skinny64_ecb_decrypt
#define SBOX skinny64_sbox
#define INV_SBOX skinny64_inv_sbox
#define RKB 4
#define ROUNDS_FOR_Z(z) (32 + 4 * ((z) - 1))
#endif
/* store 8 round-tweakey cells (model form) into schedule entry r of a real key schedule */
static inline void vh_store_rk(KEY_T *ks, unsigned r, const uint8_t *packed /* RKB bytes */)
{
#if CB == 8
    ks->schedule[r].row[0] = (uint32_t)packed[0] | ((uint32_t)packed[1] << 8) | ((uint32_t)packed[2] << 16) | ((uint32_t)packed[3] << 24);
    ks->schedule[r].row[1] = (uint32_t)packed[4] | ((uint32_t)packed[5] << 8) | ((uint32_t)packed[6] << 16) | ((uint32_t)packed[7] << 24);
#else
    ks->schedule[r].row[0] = (uint16_t)(packed[0] | (packed[1] << 8));
    ks->schedule[r].row[1] = (uint16_t)(packed[2] | (packed[3] << 8));
#endif
}
/* read schedule entry r back as RKB bytes in memory order of the specification (cell 0 first) */
static inline void vh_load_rk(const KEY_T *ks, unsigned r, uint8_t *packed)
{
#if CB == 8
    uint32_t a = ks->schedule[r].row[0], b = ks->schedule[r].row[1];
    packed[0] = (uint8_t)a; packed[1] = (uint8_t)(a >> 8); packed[2] = (uint8_t)(a >> 16); packed[3] = (uint8_t)(a >> 24);
    packed[4] = (uint8_t)b; packed[5] = (uint8_t)(b >> 8); packed[6] = (uint8_t)(b >> 16); packed[7] = (uint8_t)(b >> 24);
#else
    uint16_t a = ks->schedule[r].row[0], b = ks->schedule[r].row[1];
    packed[0] = (uint8_t)a; packed[1] = (uint8_t)(a >> 8); packed[2] = (uint8_t)b; packed[3] = (uint8_t)(b >> 8);
#endif
}
#endif
