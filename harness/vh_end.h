/* included at the very end of every harness */
#ifdef REPLAY
#include "replay_values.inc"
VH_MAIN
#endif
