#!/bin/sh
# runs the quick (or given) tier of every check in turn on /repo, logging exit codes and wall time
cd "$(dirname "$0")/.."
TIER=${1:-quick}; shift
LIST=${@:-C01 C02 C03 C04 C05 C06 C07 C08 C09 C10 C11 C12 C13 C14 C15 C16 C17 C18 C19 C20}
for c in $LIST; do
  s=$(date +%s); ./check $c --tier $TIER > /tmp/runall_$c.log 2>&1; rc=$?; e=$(date +%s)
  echo "$c exit=$rc wall=$((e-s))s $(tail -1 /tmp/runall_$c.log | cut -c1-150)"
done
