#!/usr/bin/env python3
"""setup: nothing to build ahead of time - every check rebuilds what it needs from /repo's working tree.
Verifies that the required tools are present."""
import shutil, sys
need = ['cbmc', 'goto-cc', 'kissat', 'clang-14', 'clang++-14', 'gcc', 'g++']
missing = [t for t in need if not shutil.which(t)]
if missing:
    print('missing tools: ' + ' '.join(missing)); sys.exit(1)
print('setup ok: ' + ' '.join(need))
