HOOK_COMMITS = []
NOTES = ('Technique family: solver-based checking of the real code (CBMC bounded symbolic execution + kissat). '
         'Every claim is bounded; bounds, stubs and what lies outside are listed per check in evidence/<id>.json and DESIGN.md.')
MC = 'model_checking'
CLAIMED = {
 'C01': dict(category=MC, design_ref='DESIGN.md section 4, C01',
   text='Bounded symbolic equivalence: the real set_key/ecb_encrypt/ecb_decrypt of all six SKINNY variants are proved equal to a cell-level specification model for every key and block (all loops fully unwound, full round counts), plus localising obligations (S-box lanes, one round, key schedule, arbitrary schedule). UNSAT = holds for all 2^128..2^512 inputs; this is the right level because the property quantifies over inputs only.',
   technique='CBMC symbolic execution of the real C units vs specification model, SAT (kissat) miter, witness twins, counterexample replay on gcc build'),
}
NOT_APPLICABLE = {
 **{('C%02d' % i): 'check not built yet in this revision of /verif (planned, see DESIGN.md section 4)' for i in range(2, 21)},
}
