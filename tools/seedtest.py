#!/usr/bin/env python3
"""seedtest.py <mutant-dir> <name> <property> [check-id ...] [--only REGEX]
Confirms a seeded change (patch.diff + demo.sh) in a scratch worktree of /repo, then applies it to /repo, runs the
given checks (quick tier) against it, undoes it, and stores everything under /verif/seeded/<name>/."""
import sys, os, subprocess, json, shutil, time, re
VERIF = os.path.dirname(os.path.dirname(os.path.abspath(__file__)))
def sh(cmd, **kw):
    p = subprocess.run(cmd, shell=isinstance(cmd, str), stdout=subprocess.PIPE, stderr=subprocess.STDOUT, **kw)
    return p.returncode, p.stdout.decode('utf-8', 'replace')
def main():
    args = sys.argv[1:]
    only = None
    if '--only' in args:
        i = args.index('--only'); only = args[i + 1]; del args[i:i + 2]
    mdir, name, prop = args[0], args[1], args[2]; checks = args[3:] or [prop]
    # a check may be given as ID=REGEX to run only the queries whose name matches (a subset of the quick tier)
    out = os.path.join(VERIF, 'seeded', name); os.makedirs(out, exist_ok=True)
    for f in os.listdir(mdir):
        if os.path.isfile(os.path.join(mdir, f)): shutil.copy(os.path.join(mdir, f), out)
    patch = os.path.join(out, 'patch.diff'); demo = os.path.join(out, 'demo.sh')
    wt = '/tmp/seed-wt-%d' % os.getpid()
    old = {}
    if os.path.exists(os.path.join(out, 'meta.json')):
        try: old = json.load(open(os.path.join(out, 'meta.json')))
        except Exception: old = {}
    meta = {'name': name, 'breaks_property': prop, 'source': 'written by an independent sub-agent given only the property text and a scratch worktree', 'confirmation': {}, 'checks': {}}
    try:
        rc, o = sh('git -C /repo worktree add -q %s HEAD' % wt); assert rc == 0, o
        rc, o = sh('make -C %s -s all' % wt)
        rc0, o0 = sh(['/bin/sh', demo, wt], timeout=900)
        meta['confirmation']['demo_on_unchanged_tree_exit'] = rc0
        rc, o = sh('git -C %s apply %s' % (wt, patch)); meta['confirmation']['patch_applies'] = (rc == 0)
        rc, o = sh('make -C %s -s clean all' % wt); meta['confirmation']['builds'] = (rc == 0)
        rc, o = sh('cd %s/test && ./test-skinny' % wt)
        meta['confirmation']['test_suite_ok_count'] = o.count(': ok'); meta['confirmation']['test_suite_failed'] = len(re.findall(r'fail|INCORRECT', o, re.I))
        rc1, o1 = sh(['/bin/sh', demo, wt], timeout=900)
        meta['confirmation']['demo_on_changed_tree_exit'] = rc1
        meta['confirmation']['confirmed'] = bool(rc0 == 0 and rc1 != 0 and meta['confirmation']['builds'] and meta['confirmation']['test_suite_ok_count'] == 30 and meta['confirmation']['test_suite_failed'] == 0)
        print('confirmation:', json.dumps(meta['confirmation']))
    finally:
        sh('git -C /repo worktree remove --force %s' % wt)
    if not meta['confirmation'].get('confirmed'):
        print('NOT CONFIRMED'); 
    notes = os.path.join(out, 'notes.md')
    meta['needs_to_manifest'] = open(notes).read()[:1500] if os.path.exists(notes) else ''
    # run the checks against it: the same check code, pointed (VERIF_REPO) at a scratch worktree of /repo with the change
    # applied, so that /repo itself stays untouched and several seeded changes can be examined in parallel
    wt2 = '/tmp/seed-run-%d' % os.getpid(); outdir = '/tmp/seed-out-%d' % os.getpid()
    rc, o = sh('git -C /repo worktree add -q %s HEAD' % wt2); assert rc == 0, o
    rc, o = sh('git -C %s apply %s' % (wt2, patch)); assert rc == 0, o
    env = dict(os.environ, VERIF_REPO=wt2, VERIF_OUT=outdir)
    try:
        for c in checks:
            t0 = time.time()
            only_c = only
            if '=' in c: c, only_c = c.split('=', 1)
            tier = 'quick'
            if '@' in c: c, tier = c.split('@', 1)
            cmd = [os.path.join(VERIF, 'check'), c, '--tier', tier] + (['--only', only_c] if only_c else [])
            rc, o = sh(cmd, cwd=VERIF, timeout=10800, env=env)
            viol = [l for l in o.splitlines() if l.startswith('VIOLATION')]
            inc = [l for l in o.splitlines() if l.startswith('INCONCLUSIVE')]
            desc = [l.strip() for l in o.splitlines() if l.startswith('   query')]
            meta['checks'][c + ('' if tier == 'quick' else ' --tier ' + tier) + ('' if not only_c else ' --only ' + only_c)] = {'cmd': ' '.join(cmd[1:]), 'exit': rc, 'violation_lines': len(viol), 'inconclusive': len(inc), 'first_violations': desc[:3], 'seconds': round(time.time() - t0)}
            print('check %s: exit %d, %d VIOLATION, %d INCONCLUSIVE (%ds)' % (c, rc, len(viol), len(inc), time.time() - t0))
            for d in desc[:2]: print('    ' + d[:200])
            if rc == 2:
                for l in inc[:3]: print('    ' + l[:300])
    finally:
        sh('git -C /repo worktree remove --force %s' % wt2); shutil.rmtree(outdir, ignore_errors=True)
    for k, v in old.get('checks', {}).items(): meta['checks'].setdefault(k, v)
    meta['detected_by'] = sorted(set(c.split()[0] for c, v in meta['checks'].items() if v['exit'] == 1))
    with open(os.path.join(out, 'meta.json'), 'w') as f: json.dump(meta, f, indent=1)
    print('detected by:', meta['detected_by'])
if __name__ == '__main__': main()
