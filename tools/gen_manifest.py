#!/usr/bin/env python3
"""writes /verif/MANIFEST.json from the table below (single source for the interface file)"""
import json, os
HERE = os.path.dirname(os.path.dirname(os.path.abspath(__file__)))
TRUST = ('CBMC 6.11 front end / symbolic execution / CNF encoding and kissat 4.0.1 (UNSAT not proof-checked); '
         'bounds as listed in the evidence file; gcc code generation outside the claim')
CLAIMED = {
 # id: (category, text, design_ref, note, technique, has_thorough)
}
NOT_YET = {}
def load():
    import importlib.util
    spec = importlib.util.spec_from_file_location('mt', os.path.join(HERE, 'tools', 'manifest_table.py'))
    m = importlib.util.module_from_spec(spec); spec.loader.exec_module(m); return m
def main():
    t = load()
    checks = []
    for pid in sorted(t.CLAIMED):
        c = t.CLAIMED[pid]
        e = {'property_id': pid, 'quick_cmd': './check %s --tier quick' % pid,
             'thorough_cmd': './check %s --tier thorough' % pid,
             'evidence_file': 'evidence/%s.json' % pid,
             'replay_cmd_template': './check %s --replay {path}' % pid,
             'engine': c.get('engine', 'cbmc+kissat'),
             'level_claimed': {'category': c['category'], 'text': c['text'], 'design_ref': c['design_ref']},
             'level_note': c.get('note', TRUST), 'technique': c['technique']}
        checks.append(e)
    man = {'version': 1,
           'setup_cmd': 'python3 tools/setup.py',
           'hooks': {'guard': 'SKINNY_C_VERIF', 'enable': 'checks compile every unit taken from /repo with -DSKINNY_C_VERIF (and -DSKINNY_C_VERIF_<SWITCH>=0|1 to select a build configuration)',
                     'baseline_off_cmd': 'make -C /repo clean all check',
                     'source_commits': t.HOOK_COMMITS, 'add_only': True},
           'engines': [{'name': 'cbmc+kissat', 'path': 'vlib/core.py', 'serves_properties': sorted(t.CLAIMED),
                        'kind_free_text': 'bounded symbolic execution of the real C translation units (goto-cc, shipped -std=c99) decided by kissat; vector back ends and C++ via clang-14 IR translated to C by vlib/ll2c.py'}],
           'checks': checks,
           'notes': t.NOTES,
           'not_applicable': [{'property_id': k, 'reason': v} for k, v in sorted(t.NOT_APPLICABLE.items())]}
    with open(os.path.join(HERE, 'MANIFEST.json'), 'w') as f: json.dump(man, f, indent=1)
    print('MANIFEST.json: %d checks, %d not applicable' % (len(checks), len(man['not_applicable'])))
if __name__ == '__main__': main()
