#!/usr/bin/env python3
"""writes seeded/SUMMARY.md from seeded/*/meta.json"""
import json, os, glob
HERE = os.path.dirname(os.path.dirname(os.path.abspath(__file__)))
rows = []
for m in sorted(glob.glob(os.path.join(HERE, 'seeded', '*', 'meta.json'))):
    d = json.load(open(m))
    notes = d.get('needs_to_manifest', '').replace('\n', ' ')
    what = ''
    np_ = os.path.join(os.path.dirname(m), 'notes.md')
    if os.path.exists(np_):
        for line in open(np_):
            line = line.strip()
            if line and not line.startswith('#'): what = line; break
    ran = '; '.join('%s -> exit %d (%d VIOLATION, %d inconclusive)' % (k, v['exit'], v['violation_lines'], v['inconclusive']) for k, v in sorted(d.get('checks', {}).items()))
    rows.append((d['name'], d['breaks_property'], 'yes' if d['confirmation'].get('confirmed') else 'NO', ', '.join(d.get('detected_by', [])) or '-', ran, what[:260]))
with open(os.path.join(HERE, 'seeded', 'SUMMARY.md'), 'w') as f:
    f.write('# Seeded changes and the checks that catch them\n\nEach change was written by a sub-agent that saw only the property text and a scratch worktree, was confirmed here '
            '(builds, the 30 tests pass, its demonstration passes without and fails with the change) and was then given to the listed checks '
            '(quick tier; `--only` = the subset of quick queries that was run). exit 1 = VIOLATION reported with a reproducing replay, 0 = not seen, 2 = inconclusive.\n\n')
    f.write('| change | breaks | confirmed | caught by | runs | what it is |\n|---|---|---|---|---|---|\n')
    for r in rows: f.write('| %s | %s | %s | %s | %s | %s |\n' % tuple(x.replace('|', '\\|') for x in r))
    n = len(rows); c = sum(1 for r in rows if r[3] != '-')
    f.write('\n%d changes, %d caught by at least one check.\n' % (n, c))
print('seeded/SUMMARY.md: %d rows' % len(rows))
