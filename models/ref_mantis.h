/* E3 reference model of MANTIS-r (eprint 2016/660, section 6 / MANTIS specification),
 * cells are nibbles, cell 0 = most significant nibble of byte 0.  Structure follows the
 * paper's description (AddTweakey, PermuteTweak h, SubCells with MIDORI Sb0 as a table,
 * AddConstant RC_i, PermuteCells P, MixColumns M), not the code under test. */
#ifndef REF_MANTIS_H
#define REF_MANTIS_H
#include <stdint.h>
static const uint8_t MSB0[16] = {0xc,0xa,0xd,0x3,0xe,0xb,0xf,0x7,0x8,0x9,0x1,0x5,0x0,0x2,0x4,0x6};
static const uint8_t MH[16] = {6,5,14,15,0,1,2,3,7,12,13,4,8,9,10,11};
static const uint8_t MP[16] = {0,11,6,13,10,1,12,7,5,14,3,8,15,4,9,2};
static const uint64_t MRC[8] = {0x13198A2E03707344ULL,0xA4093822299F31D0ULL,0x082EFA98EC4E6C89ULL,0x452821E638D01377ULL,
                                0xBE5466CF34E90C6CULL,0xC0AC29B7C97C50DDULL,0x3F84D5B5B5470917ULL,0x9216D5D98979FB1BULL};
#define MALPHA 0x243F6A8885A308D3ULL
static void m_cells(uint8_t c[16], uint64_t v){ for(int i=0;i<16;i++) c[i]=(uint8_t)((v>>(60-4*i))&0xF); }
static uint64_t m_load(const uint8_t *b){ uint64_t v=0; for(int i=0;i<8;i++) v=(v<<8)|b[i]; return v; }
static void m_perm(uint8_t c[16], const uint8_t p[16]){ uint8_t t[16]; for(int i=0;i<16;i++) t[i]=c[p[i]]; for(int i=0;i<16;i++) c[i]=t[i]; }
static void m_perm_inv(uint8_t c[16], const uint8_t p[16]){ uint8_t t[16]; for(int i=0;i<16;i++) t[p[i]]=c[i]; for(int i=0;i<16;i++) c[i]=t[i]; }
static void m_mix(uint8_t c[16]){ for(int j=0;j<4;j++){ uint8_t a=c[j],b=c[4+j],cc=c[8+j],d=c[12+j]; c[j]=b^cc^d; c[4+j]=a^cc^d; c[8+j]=a^b^d; c[12+j]=a^b^cc; } }
static void m_xor(uint8_t c[16], const uint8_t d[16]){ for(int i=0;i<16;i++) c[i]^=d[i]; }
static void m_sub(uint8_t c[16]){ for(int i=0;i<16;i++) c[i]=MSB0[c[i]]; }
static uint64_t m_k0prime(uint64_t k0){ return ((k0>>1)|(k0<<63)) ^ (k0>>63); }
/* encryption under (k0, k0', k1); decryption of MANTIS_r with key (k0,k1) is, by the
   alpha-reflection property stated in the specification, encryption under
   (k0', k0, k1 ^ alpha) */
static void ref_mantis_core(uint8_t out[8], const uint8_t in[8], uint64_t k0, uint64_t k0p, uint64_t k1, const uint8_t tw[8], int r)
{
    uint8_t s[16],K0[16],K0P[16],K1[16],K1A[16],T[16],RC[16];
    m_cells(s,m_load(in)); m_cells(K0,k0); m_cells(K0P,k0p); m_cells(K1,k1); m_cells(K1A,k1^MALPHA); m_cells(T,m_load(tw));
    m_xor(s,K0); m_xor(s,K1); m_xor(s,T);
    for(int i=0;i<r;i++){ m_sub(s); m_cells(RC,MRC[i]); m_xor(s,RC); m_perm(T,MH); m_xor(s,K1); m_xor(s,T); m_perm(s,MP); m_mix(s); }
    m_sub(s); m_mix(s); m_sub(s);
    for(int i=r-1;i>=0;i--){ m_mix(s); m_perm_inv(s,MP); m_xor(s,K1A); m_xor(s,T); m_perm_inv(T,MH); m_cells(RC,MRC[i]); m_xor(s,RC); m_sub(s); }
    m_xor(s,K0P); m_xor(s,K1A); m_xor(s,T);
    for(int i=0;i<8;i++) out[i]=(uint8_t)((s[2*i]<<4)|s[2*i+1]);
}
static void ref_mantis(uint8_t out[8], const uint8_t in[8], const uint8_t key[16], const uint8_t tw[8], int r, int decrypt)
{
    uint64_t k0=m_load(key), k1=m_load(key+8), k0p=m_k0prime(k0);
    if (decrypt) ref_mantis_core(out,in,k0p,k0,k1^MALPHA,tw,r);
    else         ref_mantis_core(out,in,k0,k0p,k1,tw,r);
}
/* structural inverse of encryption, step by step backwards (used only to cross-check the
   alpha-reflection form above: ref_mantis(...,1) must equal ref_mantis_inv) */
static void ref_mantis_inv(uint8_t out[8], const uint8_t in[8], const uint8_t key[16], const uint8_t tw[8], int r)
{
    uint64_t k0=m_load(key), k1=m_load(key+8), k0p=m_k0prime(k0);
    uint8_t s[16],K0[16],K0P[16],K1[16],K1A[16],T[16],RC[16];
    m_cells(s,m_load(in)); m_cells(K0,k0); m_cells(K0P,k0p); m_cells(K1,k1); m_cells(K1A,k1^MALPHA); m_cells(T,m_load(tw));
    /* encryption ends with the tweak back at its initial value, so start from T */
    m_xor(s,K0P); m_xor(s,K1A); m_xor(s,T);
    for(int i=0;i<r;i++){ m_sub(s); m_cells(RC,MRC[i]); m_xor(s,RC); m_perm(T,MH); m_xor(s,T); m_xor(s,K1A); m_perm(s,MP); m_mix(s); }
    m_sub(s); m_mix(s); m_sub(s);
    for(int i=r-1;i>=0;i--){ m_mix(s); m_perm_inv(s,MP); m_xor(s,K1); m_xor(s,T); m_perm_inv(T,MH); m_cells(RC,MRC[i]); m_xor(s,RC); m_sub(s); }
    m_xor(s,K0); m_xor(s,K1); m_xor(s,T);
    for(int i=0;i<8;i++) out[i]=(uint8_t)((s[2*i]<<4)|s[2*i+1]);
}
#endif
