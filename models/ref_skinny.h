/* E3 reference model of SKINNY-64 and SKINNY-128, written from the specification
 * (Beierle et al., "The SKINNY Family of Block Ciphers and its Low-Latency Variant
 * MANTIS", eprint 2016/660, section 2).  Independent in structure from the code
 * under test: the state is an array of 16 cells (one uint8_t per cell, holding a
 * 4- or 8-bit value), nothing is bit-sliced, no schedule is precomputed unless the
 * harness asks for round tweakeys explicitly.
 *
 *   cb  = cell bits (4 => SKINNY-64, 8 => SKINNY-128)
 *   z   = number of tweakey words (1..3); tk holds z*16 cells as bytes (cb=8) or
 *         nibbles packed two per byte, high nibble first (cb=4)
 *   dom = 1 if the "tweak in TK1" domain-separation bit of section 4.? (cell 2 ^= 2
 *         in every round) is to be applied, as this library does for tweaked keys
 */
#ifndef REF_SKINNY_H
#define REF_SKINNY_H
#include <stdint.h>

/* ---- S-boxes from the specification's NOR/XOR description ---- */
static uint8_t ref_S8(uint8_t x)
{
    /* 4 x [ x4 ^= NOR(x7,x6); x0 ^= NOR(x3,x2); bit permutation ], the last
       permutation only swaps x1 and x2 */
    for (int i = 0; i < 4; i++) {
        uint8_t x7=(x>>7)&1,x6=(x>>6)&1,x5=(x>>5)&1,x4=(x>>4)&1,x3=(x>>3)&1,x2=(x>>2)&1,x1=(x>>1)&1,x0=x&1;
        x4 ^= !(x7|x6); x0 ^= !(x3|x2);
        if (i < 3)
            x = (uint8_t)((x2<<7)|(x1<<6)|(x7<<5)|(x6<<4)|(x4<<3)|(x0<<2)|(x3<<1)|x5);
        else
            x = (uint8_t)((x7<<7)|(x6<<6)|(x5<<5)|(x4<<4)|(x3<<3)|(x1<<2)|(x2<<1)|x0);
    }
    return x;
}
static uint8_t ref_S8inv(uint8_t x)
{
    /* undo the steps of ref_S8 in reverse order: each XOR step is an involution */
    for (int i = 3; i >= 0; i--) {
        uint8_t b7,b6,b5,b4,b3,b2,b1,b0;
        uint8_t y7=(x>>7)&1,y6=(x>>6)&1,y5=(x>>5)&1,y4=(x>>4)&1,y3=(x>>3)&1,y2=(x>>2)&1,y1=(x>>1)&1,y0=x&1;
        if (i < 3) { /* y = (x2,x1,x7,x6,x4,x0,x3,x5) */
            b2=y7; b1=y6; b7=y5; b6=y4; b4=y3; b0=y2; b3=y1; b5=y0;
        } else {     /* y = (x7,x6,x5,x4,x3,x1,x2,x0) */
            b7=y7; b6=y6; b5=y5; b4=y4; b3=y3; b1=y2; b2=y1; b0=y0;
        }
        b4 ^= !(b7|b6); b0 ^= !(b3|b2);
        x = (uint8_t)((b7<<7)|(b6<<6)|(b5<<5)|(b4<<4)|(b3<<3)|(b2<<2)|(b1<<1)|b0);
    }
    return x;
}
/* 4-bit S-box, table from the specification (Table 3) and its inverse */
static const uint8_t ref_S4tab[16]    = {0xc,0x6,0x9,0x0,0x1,0xa,0x2,0xb,0x3,0x8,0x5,0xd,0x4,0xe,0x7,0xf};
static const uint8_t ref_S4invtab[16] = {0x3,0x4,0x6,0x8,0xc,0xa,0x1,0xe,0x9,0x2,0x5,0x7,0x0,0xb,0xd,0xf};
/* circuit form: 4 x [ x0 ^= NOR(x3,x2); rotate bits left by one ], last rotation omitted */
static uint8_t ref_S4(uint8_t x)
{
    for (int i = 0; i < 4; i++) {
        uint8_t x3=(x>>3)&1,x2=(x>>2)&1,x1=(x>>1)&1,x0=x&1;
        x0 ^= !(x3|x2);
        if (i < 3) x = (uint8_t)((x2<<3)|(x1<<2)|(x0<<1)|x3);
        else       x = (uint8_t)((x3<<3)|(x2<<2)|(x1<<1)|x0);
    }
    return x;
}
static uint8_t ref_S4inv(uint8_t x)
{
    for (int i = 3; i >= 0; i--) {
        uint8_t b3,b2,b1,b0;
        uint8_t y3=(x>>3)&1,y2=(x>>2)&1,y1=(x>>1)&1,y0=x&1;
        if (i < 3) { b2=y3; b1=y2; b0=y1; b3=y0; } else { b3=y3; b2=y2; b1=y1; b0=y0; }
        b0 ^= !(b3|b2);
        x = (uint8_t)((b3<<3)|(b2<<2)|(b1<<1)|b0);
    }
    return x;
}
static uint8_t ref_S(int cb, uint8_t x)    { return cb == 8 ? ref_S8(x)    : ref_S4(x); }
static uint8_t ref_Sinv(int cb, uint8_t x) { return cb == 8 ? ref_S8inv(x) : ref_S4inv(x); }

/* ---- tweakey schedule ---- */
static const uint8_t ref_PT[16] = {9,15,8,13,10,14,12,11,0,1,2,3,4,5,6,7};
static uint8_t ref_lfsr2(int cb, uint8_t x)
{
    if (cb == 8) return (uint8_t)((x<<1) | (((x>>7)^(x>>5))&1));
    return (uint8_t)(((x<<1)&0xE) | (((x>>3)^(x>>2))&1));
}
static uint8_t ref_lfsr3(int cb, uint8_t x)
{
    if (cb == 8) return (uint8_t)((x>>1) | (((x^(x>>6))&1)<<7));
    return (uint8_t)((x>>1) | (((x^(x>>3))&1)<<3));
}
static int ref_rounds(int cb, int z) { return cb == 8 ? 40 + 8*(z-1) : 32 + 4*(z-1); }
static int ref_blk(int cb) { return cb == 8 ? 16 : 8; }

static void ref_unpack(int cb, uint8_t c[16], const uint8_t *b)
{
    if (cb == 8) { for (int i=0;i<16;i++) c[i]=b[i]; }
    else { for (int i=0;i<8;i++){ c[2*i]=(uint8_t)(b[i]>>4); c[2*i+1]=(uint8_t)(b[i]&15); } }
}
static void ref_pack(int cb, uint8_t *b, const uint8_t c[16])
{
    if (cb == 8) { for (int i=0;i<16;i++) b[i]=c[i]; }
    else { for (int i=0;i<8;i++) b[i]=(uint8_t)((c[2*i]<<4)|c[2*i+1]); }
}

/* Round tweakeys: rk[r][0..7] = first two rows of TK1^TK2^TK3 in round r, with the
   round-constant cells c0 (cell 0), c1 (cell 4) and, if dom, the domain bit (cell 2)
   folded in.  c2 = 2 (cell 8) is added by the round function itself. */
static void ref_skinny_roundkeys(int cb, const uint8_t *tk, int z, int rounds, int dom, uint8_t rk[][8])
{
    uint8_t T[3][16], U[16]; uint8_t rc = 0;
    for (int j=0;j<z;j++) ref_unpack(cb, T[j], tk + j*ref_blk(cb));
    for (int r=0;r<rounds;r++) {
        rc = (uint8_t)(((rc<<1)&0x3E) | (((rc>>5)^(rc>>4)^1)&1));
        for (int i=0;i<8;i++){ uint8_t v=0; for(int j=0;j<z;j++) v^=T[j][i]; rk[r][i]=v; }
        rk[r][0] ^= rc & 0x0F; rk[r][4] ^= (rc>>4)&3;
        if (dom) rk[r][2] ^= 2;
        for (int j=0;j<z;j++){
            for(int i=0;i<16;i++) U[i]=T[j][ref_PT[i]];
            for(int i=0;i<16;i++) T[j][i]=U[i];
            if (j==1) for(int i=0;i<8;i++) T[j][i]=ref_lfsr2(cb,T[j][i]);
            if (j==2) for(int i=0;i<8;i++) T[j][i]=ref_lfsr3(cb,T[j][i]);
        }
    }
}

/* ---- round function on 16 cells ---- */
static void ref_skinny_round(int cb, uint8_t s[16], const uint8_t rk[8])
{
    uint8_t t[16];
    for (int i=0;i<16;i++) s[i]=ref_S(cb,s[i]);
    for (int i=0;i<8;i++) s[i]^=rk[i];
    s[8]^=0x02;
    for (int r=0;r<4;r++) for(int c=0;c<4;c++) t[4*r+((c+r)&3)] = s[4*r+c];   /* ShiftRows: row r right by r */
    for (int c=0;c<4;c++){                                                   /* MixColumns */
        uint8_t a=t[c],b=t[4+c],cc=t[8+c],d=t[12+c];
        s[c]=a^cc^d; s[4+c]=a; s[8+c]=b^cc; s[12+c]=a^cc;
    }
}
static void ref_skinny_round_inv(int cb, uint8_t s[16], const uint8_t rk[8])
{
    uint8_t t[16];
    for (int c=0;c<4;c++){     /* inverse MixColumns: y0=a^c^d, y1=a, y2=b^c, y3=a^c */
        uint8_t y0=s[c],y1=s[4+c],y2=s[8+c],y3=s[12+c];
        uint8_t a=y1, cc=(uint8_t)(y1^y3), d=(uint8_t)(y0^y3), b=(uint8_t)(y2^cc);
        t[c]=a; t[4+c]=b; t[8+c]=cc; t[12+c]=d;
    }
    for (int r=0;r<4;r++) for(int c=0;c<4;c++) s[4*r+c] = t[4*r+((c+r)&3)];
    s[8]^=0x02;
    for (int i=0;i<8;i++) s[i]^=rk[i];
    for (int i=0;i<16;i++) s[i]=ref_Sinv(cb,s[i]);
}

/* ---- whole cipher ---- */
#define REF_MAX_ROUNDS 56
static void ref_skinny_encrypt(int cb, uint8_t *out, const uint8_t *in, const uint8_t *tk, int z, int dom)
{
    uint8_t rk[REF_MAX_ROUNDS][8], s[16]; int rounds = ref_rounds(cb, z);
    ref_skinny_roundkeys(cb, tk, z, rounds, dom, rk);
    ref_unpack(cb, s, in);
    for (int r=0;r<rounds;r++) ref_skinny_round(cb, s, rk[r]);
    ref_pack(cb, out, s);
}
static void ref_skinny_decrypt(int cb, uint8_t *out, const uint8_t *in, const uint8_t *tk, int z, int dom)
{
    uint8_t rk[REF_MAX_ROUNDS][8], s[16]; int rounds = ref_rounds(cb, z);
    ref_skinny_roundkeys(cb, tk, z, rounds, dom, rk);
    ref_unpack(cb, s, in);
    for (int r=rounds-1;r>=0;r--) ref_skinny_round_inv(cb, s, rk[r]);
    ref_pack(cb, out, s);
}
/* cipher on explicit round tweakeys (used for "arbitrary schedule" obligations) */
static void ref_skinny_encrypt_rk(int cb, uint8_t *out, const uint8_t *in, uint8_t rk[][8], int rounds)
{
    uint8_t s[16]; ref_unpack(cb, s, in);
    for (int r=0;r<rounds;r++) ref_skinny_round(cb, s, rk[r]);
    ref_pack(cb, out, s);
}
static void ref_skinny_decrypt_rk(int cb, uint8_t *out, const uint8_t *in, uint8_t rk[][8], int rounds)
{
    uint8_t s[16]; ref_unpack(cb, s, in);
    for (int r=rounds-1;r>=0;r--) ref_skinny_round_inv(cb, s, rk[r]);
    ref_pack(cb, out, s);
}
/* the 8 round-tweakey cells of one round packed as the library stores them in memory:
   SKINNY-128: 8 bytes; SKINNY-64: 4 bytes (two cells per byte, high nibble first) */
static void ref_pack_rk(int cb, uint8_t *b, const uint8_t rk[8])
{
    if (cb == 8) { for (int i=0;i<8;i++) b[i]=rk[i]; }
    else { for (int i=0;i<4;i++) b[i]=(uint8_t)((rk[2*i]<<4)|rk[2*i+1]); }
}
static void ref_unpack_rk(int cb, uint8_t rk[8], const uint8_t *b)
{
    if (cb == 8) { for (int i=0;i<8;i++) rk[i]=b[i]; }
    else { for (int i=0;i<4;i++){ rk[2*i]=(uint8_t)(b[i]>>4); rk[2*i+1]=(uint8_t)(b[i]&15); } }
}
#endif
