from vlib.core import Q
from vlib.common import *

def plan(tier):
    qs = []
    tools = {1: 'skinny-ctr', 2: 'skinny-tweak', 3: 'skinny-ecb'}
    for t, tn in tools.items():
        for bs in (8, 16):
            lens = [0, 1, bs - 1, bs, bs + 1, 1023, 1024, 1025, 1024 + bs - 1, 1024 + bs, 2047, 2048, 2049, 2088]
            if tier == 'quick': lens = [0, bs - 1, bs + 1, 1024 + bs] if t != 2 else [0, bs + 1, 1024 + bs]
            for L in lens:
              for ts in ((None,) if t != 2 else ((1, bs) if tier == 'quick' else (1, 2, 3, bs - 1, bs))):
                qs.append(Q('main:%s:b%d:len%d%s' % (tn, bs * 8, L, '' if ts is None else ':t%d' % ts), 'c20.c',
                            'real main() of %s, block size %d, input file of %d bytes with arbitrary content, arbitrary legal key/%s and direction, or failing option parsing: exit code, output length, every output byte, tweak sequence, call discipline'
                            % (tn, bs * 8, L, 'counter' if t == 1 else 'tweak'), defs=dict({'TOOL': t, 'OB_MAIN': 1, 'FLEN': L, 'BS': bs}, **({} if ts is None else {'TSIZE': ts})), timeout=2400, unwind=2300, fsarray=2300, mem_est=3, objbits=12))
        flags = {1: 0, 2: 5, 3: 6}[t]
        for nopt, arglen in (((2, 6), (3, 4), (3, 18)) if tier == 'quick' else ((1, 40), (2, 20), (3, 18), (2, 10), (3, 6), (4, 4))):
            qs.append(Q('opts:%s:n%d:a%d' % (tn, nopt, arglen), 'c20.c', 'real parse_options (flags of %s) on an arbitrary sequence of %d options with arbitrary argument strings of up to %d characters and 0..3 file names: accepts exactly the documented combinations and decodes key/counter/tweak as the hexadecimal text says'
                        % (tn, nopt, arglen), defs={'TOOL': t, 'OB_OPTS': 1, 'NOPT': nopt, 'ARGLEN': arglen, 'FLAGS': flags}, timeout=1800, unwind=200, mem_est=3))
    return dict(queries=qs, level='model_checking', pre=[],
                functions=['main() of examples/skinny-ctr.c, skinny-tweak.c, skinny-ecb.c', 'increment_tweak', 'parse_options, parse_hex (examples/options.c)'],
                bounds={'file lengths': 'enumerated (quick: 0, bs-1, bs+1, 1024, 1024+bs, 2049; thorough: 14 lengths up to 2088) for both block sizes, contents symbolic; longer files repeat the same chunk loop body',
                        'options': 'sequences of 1..4 options from "b:k:t:c:d" or an unknown option, argument strings up to 40/10/6/4 characters (quick: 2x6 and 3x4), 0..3 file names; key lengths therefore up to 20 bytes in the option obligations, every legal length in the main() obligations',
                        'composition': 'tool glue here (library API replaced by recording specification stubs); what the library does with those requests is C04/C05/C07/C10'},
                outside=['I/O errors, non-regular files (fread returns min(count, remaining))', 'the real getopt permutation of arguments'],
                assumptions=BASE_ASSUMPTIONS + ['stdio model: one regular input file, fread returns min(count, remaining) and sets EOF when short; getopt model: options delivered in order, then -1 with optind at the first file name',
                                                'counterexamples in this check are not replayed automatically (environment models); they are reported as inconclusive with the solver trace values'])
