from vlib.core import Q
from vlib.common import *

def plan(tier):
    qs = []
    for cb, blk, nm in ((8, 16, 'skinny128'), (4, 8, 'skinny64')):
        for kl in (blk, 2 * blk):
            base = {'CB': cb, 'KEYLEN': kl, 'TLEN': blk}
            tag = '%s-k%d' % (nm, kl)
            qs.append(Q('base:' + tag, 'c04.c', 'forall %d-byte keys: after %s_set_tweaked_key the schedule is the specification schedule for (TK1 = 0 with domain bit, key) and the stored tweak is zero' % (kl, nm),
                        defs=dict(base, OB_BASE=1), timeout=600))
            tl_all = list(range(1, blk + 1))
            tls = tl_all if tier == 'thorough' else sorted(set([1, 2, 3, blk // 2, blk - 1, blk]))
            for tl in tls:
                qs.append(Q('step:%s:t%d' % (tag, tl), 'c04.c',
                            'from ANY state Inv(K, T_old) (arbitrary key and old tweak, built from the model): %s_set_tweak(T_new, %d) returns 1 and establishes Inv(K, T_new || 0..): history independence by induction over tweak changes' % (nm, tl),
                            defs=dict(base, OB_STEP=1, TLEN=tl), timeout=600))
            for tl in ((1, blk) if tier == 'quick' else tl_all):
                qs.append(Q('null:%s:t%d' % (tag, tl), 'c04.c', 'from any state Inv(K, T_old): %s_set_tweak(NULL, %d) returns 1 and establishes Inv(K, 0)' % (nm, tl),
                            defs=dict(base, OB_NULL=1, TLEN=tl), timeout=600, sanitize=True))
            for bl in (0, blk + 1, 255, '0xFFFFFFFFu'):
                qs.append(Q('badlen:%s:%s' % (tag, bl), 'c04.c', 'tweak length %s: %s_set_tweak returns 0 and the schedule is byte-identical' % (bl, nm),
                            defs=dict(base, OB_BADLEN=1, BADLEN=bl), timeout=600))
            for d in (0, 1):
                for tl in ((blk,) if tier == 'quick' else (1, blk - 1, blk)):
                    qs.append(Q('e2e:%s:%s:t%d' % (tag, 'dec' if d else 'enc', tl), 'c04.c',
                                'forall key, old tweak, new tweak (%d bytes), block: set_tweaked_key; set_tweak(old); set_tweak(new); ecb_%s == specification TBC with TK1 = new tweak, full depth' % (tl, 'decrypt' if d else 'encrypt'),
                                defs=dict(base, OB_E2E=1, DIR=d, TLEN=tl), timeout=900))
            qs.append(Q('ctr-base:' + tag, 'c04.c', '%s_ctr_set_tweaked_key (dispatcher + generic back end) leaves the context schedule in Inv(K, 0) and discards buffered keystream' % nm,
                        defs=dict(base, OB_CTR_BASE=1), timeout=600))
            for tl in ((1, blk) if tier == 'quick' else tl_all):
                qs.append(Q('ctr-step:%s:t%d' % (tag, tl), 'c04.c', 'from any Inv(K, T_old) inside a CTR context: %s_ctr_set_tweak(T_new, %d) establishes Inv(K, T_new || 0..) and discards buffered keystream' % (nm, tl),
                            defs=dict(base, OB_CTR_STEP=1, TLEN=tl), timeout=600))
            qs.append(Q('ctr-null:' + tag, 'c04.c', '%s_ctr_set_tweak(NULL, n) establishes Inv(K, 0)' % nm, defs=dict(base, OB_CTR_NULL=1), timeout=600, sanitize=True))
    qs += ctr_rekey_queries(tier, ('set_tweaked_key', 'set_tweak'))
    return dict(
        queries=qs, level='model_checking', pre=[pre_model_selftest],
        functions=['skinny{64,128}_set_tweaked_key', 'skinny{64,128}_set_tweak', 'skinny{64,128}_xor_tk1', 'skinny{64,128}_set_key_inner', 'skinny{64,128}_ecb_encrypt/decrypt',
                   'skinny{64,128}_ctr_set_tweaked_key / _ctr_set_tweak (dispatcher + generic back end)'],
        bounds={'keys': 'both tweaked key sizes per cipher, all bytes symbolic', 'tweak lengths': 'quick: 1,2,3,blk/2,blk-1,blk and NULL; thorough: every length 1..blk',
                'histories': 'one step from an arbitrary invariant state (induction over tweak changes is a meta-step); e2e with two successive tweaks', 'rounds': 'full depth'},
        outside=['vec CTR back ends (C06 set_tweak step)', 'in-between tweaked key lengths (C10)'],
        assumptions=BASE_ASSUMPTIONS + [MODEL_ASSUMPTION, 'pre-states are constructed from the model to satisfy the invariant; the base case shows the real code establishes it'],
    )
