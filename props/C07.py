from vlib.core import Q, LL
from vlib.common import *

BE = [(1, 0), (1, 128), (1, 256), (2, 0), (2, 128), (3, 0), (3, 128)]
LANES = {(1, 0): 4, (1, 128): 4, (1, 256): 8, (2, 0): 8, (2, 128): 8, (3, 0): 8, (3, 128): 8}
FULL = {1: 56, 2: 40, 3: 8}

def par_ll(c, v):
    n = CTR_CIPH[c]
    return [LL('src/%s-parallel-vec%d.c' % (n, v), flags=('-mavx2' if v == 256 else '-msse2',))] if v else []

def plan(tier):
    qs = []
    for (c, v) in BE:
        name = '%s-%s' % (CTR_CIPH[c], 'generic' if v == 0 else 'vec%d' % v); L = LANES[(c, v)]
        base = {'CIPHER': c, 'VEC': v}
        if v:
            dirs = (0,) if c == 3 else (0, 1)
            rounds = [FULL[c]] if c != 3 else ([5, 8] if tier == 'quick' else [5, 6, 7, 8])
            for nr in rounds:
                for d in dirs:
                    qs.append(Q('batch:%s:%s:r%d' % (name, 'dec' if d else ('crypt' if c == 3 else 'enc'), nr), 'c07.c',
                                'forall %d-round schedules%s, forall data: the %s batch function of the %s back end == the single-block function on each of its %d blocks' % (nr, ' (arbitrary k0,k0\',k1) and tweak arrays' if c == 3 else '', 'decrypt' if d else 'encrypt/crypt', name, L),
                                defs=dict(base, OB_BATCH=1, DIR=d, NR=nr), ll=par_ll(c, v), timeout=3600, fsarray=1300, sanitize=True))
        counts = list(range(0, 2 * L + 2)) if (tier == 'thorough' or v) else [0, 1, 2, L - 1, L, L + 1, 2 * L + 1]
        if tier == 'quick' and v: counts = [0, 1, L - 1, L, L + 1, 2 * L - 1, 2 * L, 2 * L + 1]
        lowr = 1
        for nb in counts:
            for d in ((0,) if c == 3 else (0, 1)):
                for inplace in ((0, 1) if (tier == 'thorough' or nb in (L + 1, 2 * L + 1)) else (0,)):
                    qs.append(Q('driver:%s:n%d:%s%s' % (name, nb, 'dec' if d else ('crypt' if c == 3 else 'enc'), ':inplace' if inplace else ''), 'c07.c',
                                'the real driver loop on %d blocks (%s back end selected by init, arbitrary %d-round schedule, arbitrary data%s): returns 1 and every block equals the single-block result%s'
                                % (nb, name, lowr, ', output buffer == input buffer' if inplace else '', ' under its own tweak' if c == 3 else ''),
                                defs=dict(base, OB_DRIVER=1, NBLK=nb, DIR=d, INPLACE=inplace, NR=lowr), ll=par_ll(c, v), timeout=1200, fsarray=1300, sanitize=True))
    return dict(queries=qs, level='model_checking', pre=[pre_engine_canaries, pre_ll_diff],
                functions=['skinny128/skinny64/mantis _parallel_ecb_init/_encrypt/_decrypt/_crypt (driver files, native)', '_skinny128_parallel_{en,de}crypt_vec128/vec256, _skinny64_parallel_{en,de}crypt_vec128, _mantis_parallel_crypt_vec128 (clang IR)',
                           'single-block functions as oracle'],
                bounds={'batch functions': 'full depth (56/40 rounds; Mantis 5 and 8 quick, 5..8 thorough), arbitrary schedule, arbitrary data and tweak array',
                        'driver': 'block counts 0..2*lanes+1 (quick: 0,1,lanes-1,lanes,lanes+1,2lanes-1,2lanes,2lanes+1), exact-extent buffers, in place for selected counts, 1-round schedule (the driver never looks at the schedule)',
                        'larger counts': 'outside: they repeat the same loop bodies'},
                outside=['invalid sizes (C14)', 'selection and advertised size under every CPU model (C13)'],
                assumptions=BASE_ASSUMPTIONS + ['vector batch functions: clang-14 -O1 IR via ll2c, validated differentially every run; the back end is pinned by probe stubs'])
