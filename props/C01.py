from vlib.core import Q
from vlib.common import *

def plan(tier):
    qs = []
    F128 = ['skinny128_set_key', 'skinny128_set_key_inner', 'skinny128_set_tk1/2/3', 'skinny128_permute_tk', 'skinny128_LFSR2/3',
            'skinny128_sbox', 'skinny128_inv_sbox', 'skinny128_ecb_encrypt', 'skinny128_ecb_decrypt']
    F64 = [f.replace('128', '64') for f in F128]
    for cb, blk in ((8, 16), (4, 8)):
        nm = 'skinny%d' % (128 if cb == 8 else 64)
        qs.append(Q('sbox:%s' % nm, 'c01.c', 'forall machine words x: %s_sbox(x) and %s_inv_sbox(x) equal the specification S-box / inverse on every cell lane' % (nm, nm),
                    defs={'CB': cb, 'OB_SBOX': 1}, timeout=300))
        for z in (1, 2, 3):
            kl = z * blk
            qs.append(Q('sched:%s-%d' % (nm, kl * 8), 'c01.c',
                        'forall %d-byte keys: rounds and every schedule entry of %s_set_key equal the specification round tweakeys' % (kl, nm),
                        defs={'CB': cb, 'OB_SCHED': 1, 'KEYLEN': kl}, timeout=600))
            for d in (0, 1):
                qs.append(Q('e2e:%s-%d:%s' % (nm, kl * 8, 'dec' if d else 'enc'), 'c01.c',
                            'forall %d-byte keys, forall blocks: %s_set_key ; %s_ecb_%s == specification %s at %d rounds'
                            % (kl, nm, nm, 'decrypt' if d else 'encrypt', 'inverse' if d else 'cipher', (40 + 8 * (z - 1)) if cb == 8 else (32 + 4 * (z - 1))),
                            defs={'CB': cb, 'OB_E2E': 1, 'KEYLEN': kl, 'DIR': d}, timeout=900))
        for d in (0, 1):
            qs.append(Q('round:%s:%s' % (nm, 'dec' if d else 'enc'), 'c01.c',
                        'forall state, forall round tweakey: one real %s round == one specification round (%s)' % (nm, 'inverse' if d else 'forward'),
                        defs={'CB': cb, 'OB_ARB': 1, 'NR': 1, 'DIR': d}, timeout=300))
            nr = 56 if cb == 8 else 40
            qs.append(Q('arb:%s:%s' % (nm, 'dec' if d else 'enc'), 'c01.c',
                        'forall %d-round schedules (arbitrary round tweakeys), forall blocks: real %s == %d specification rounds' % (nr, 'decrypt' if d else 'encrypt', nr),
                        defs={'CB': cb, 'OB_ARB': 1, 'NR': nr, 'DIR': d}, timeout=900))
    for cb, blk in ((8, 16), (4, 8)):
        nm = 'skinny%d' % (128 if cb == 8 else 64)
        for (z1, z2) in (((1, 2), (1, 3), (2, 3), (3, 1)) if tier == 'quick' else [(a, b) for a in (1, 2, 3) for b in (1, 2, 3)]):
            qs.append(Q('sched-after:%s:%d-then-%d' % (nm, z1 * blk * 8, z2 * blk * 8), 'c01.c',
                        'forall K1 (%d bytes), K2 (%d bytes): after %s_set_key(K1) on another object, %s_set_key(K2) gives exactly the specification schedule of K2 (no state carried between calls)' % (z1 * blk, z2 * blk, nm, nm),
                        defs={'CB': cb, 'OB_SCHED2': 1, 'KEYLEN1': z1 * blk, 'KEYLEN': z2 * blk}, timeout=900))
    # the other word-size code path of the S-boxes and rounds (the full configuration matrix is C12; these cost a second)
    import copy
    for q in list(qs):
        if q.name.startswith(('sbox:', 'round:')) or (tier == 'thorough' and q.name.startswith(('e2e:', 'sched:'))):
            q2 = copy.copy(q); q2.name = q.name + ':w32'; q2.cfg = {'64BIT': 0}; q2.desc = q.desc + ' [32-bit word path, SKINNY_64BIT=0]'; qs.append(q2)
    if tier == 'thorough':      # second opinion: the small obligations again with CBMC's built-in SAT solver instead of kissat
        for q in list(qs):
            if q.name.startswith(('sbox:', 'round:', 'sched:skinny64-64', 'sched:skinny128-128')) and not q.name.endswith(':w32'):
                q2 = copy.copy(q); q2.name = q.name + ':builtin-solver'; q2.solver = 'builtin'; q2.desc = q.desc + ' [decided again by CBMC\'s built-in SAT solver]'; qs.append(q2)
    return dict(
        queries=qs, level='model_checking', pre=[pre_model_selftest],
        functions=F128 + F64,
        bounds={'key sizes': 'the six primary sizes (8/16/24 and 16/32/48 bytes)', 'rounds': 'full depth, all loops fully unwound (32/36/40 and 40/48/56)',
                'inputs': 'every key bit and every block bit symbolic', 'build configuration': 'default x86-64 (64-bit, little-endian, unaligned) for everything; S-box and single-round obligations also on the 32-bit word path (thorough: everything); the full configuration matrix is C12'},
        outside=['in-between key lengths (C10)', 'gcc code generation'],
        assumptions=BASE_ASSUMPTIONS + [MODEL_ASSUMPTION],
    )
