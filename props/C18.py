from vlib.core import Q, LL
from vlib.common import *
import os, re

def pre_static_inventory(R):
    """(a) every static-lifetime object of the library is read-only: symbol tables of the gcc objects built with the shipped
    flags (writable data, bss and common symbols must not exist) and, for the same files, of CBMC's own front end"""
    from vlib.core import INC, GUARD
    bad = []; n = 0
    d = os.path.join(R.scratch, 'inv'); os.makedirs(d, exist_ok=True)
    for f in LIB_C:
        o = os.path.join(d, f + '.o')
        rc, out, _, _, _ = sh(['gcc', '-std=c99', '-O3', '-w', vec_flag(f), '-D' + GUARD] + INC + ['-c', os.path.join(REPO, 'src', f + '.c'), '-o', o], timeout=300)
        if rc: return False, 'inventory: gcc failed on ' + f
        rc, out, _, _, _ = sh(['objdump', '-t', o], timeout=60)
        for line in out.splitlines():
            m = re.match(r'^[0-9a-f]+\s+(\S.{6})\s+(\S+)\s+[0-9a-f]+\s+(\S+)$', line)
            if not m: continue
            flags, sec, name = m.group(1), m.group(2), m.group(3)
            if 'O' not in flags and sec != '*COM*': continue            # data objects only
            n += 1
            if sec.startswith(('.rodata', '.data.rel.ro', '.text')): continue   # constants (vtables become read-only after relocation)
            bad.append('%s:%s[%s]' % (f, name, sec))
    R.static_inventory = bad
    if bad:
        from vlib.core import OUT
        rd = os.path.join(OUT, 'replays', 'C18', 'static_inventory'); os.makedirs(rd, exist_ok=True)
        with open(os.path.join(rd, 'run.sh'), 'w') as fh:
            fh.write('#!/bin/sh\n# mutable global state in the library: lists the writable static-lifetime objects of the real gcc build\nT=$(mktemp -d); trap \'rm -rf "$T"\' EXIT; rc=0\n'
                     'for f in %s/src/*.c; do b=$(basename $f .c); fl=-msse2; case $b in *vec256) fl=-mavx2;; skinny-internal) fl="-msse2 -mavx2";; esac\n'
                     '  gcc -std=c99 -O3 -w $fl -I%s/include -c $f -o $T/$b.o || exit 99\n'
                     '  objdump -t $T/$b.o | awk -v f=$b \'($2 ~ /O/ || $3 ~ /O/) && ($0 ~ /[[:space:]]\\.(data|bss|tdata|tbss)[[:space:]]/ || $0 ~ /\\*COM\\*/) && $0 !~ /\\.data\\.rel\\.ro/ {print "REPLAY-FAIL: writable static object in " f ": " $NF; found=1} END {exit found}\' || rc=1\ndone\nexit $rc\n' % (REPO, REPO))
        os.chmod(os.path.join(rd, 'run.sh'), 0o755)
        rc, out, _, _, _ = sh(['/bin/sh', os.path.join(rd, 'run.sh')], timeout=300)
        if 'REPLAY-FAIL' in out:
            return False, 'the library has mutable global state (writable static-lifetime objects: %s); confirmed on the real gcc build' % ', '.join(bad), os.path.join(rd, 'run.sh')
    return (not bad), 'inventory of static-lifetime objects in the 18 library objects (objdump -t, shipped flags, %d data objects): ' % n + ('none is writable (only .rodata tables and vtables)' if not bad else 'MUTABLE GLOBAL STATE: ' + ', '.join(bad))

def plan(tier):
    qs = []
    nm = CTR_CIPH
    full = {1: 56, 2: 40, 3: 8}
    for c in (1, 2, 3):
        ll = [LL('src/%s-cipher.c' % nm[c], flags=('-msse2',), ct=True, cflags=('-DWW_MODE',))]
        for fn, what in ((1, 'ecb_encrypt' if c != 3 else 'ecb_crypt'), (2, 'ecb_decrypt' if c != 3 else 'ecb_crypt_tweaked')):
            for nr in ((full[c],) if tier == 'quick' else ((40, 48, 56) if c == 1 else ((32, 36, 40) if c == 2 else (5, 6, 7, 8)))):
                qs.append(Q('readonly:%s:%s:r%d' % (nm[c], what, nr), 'c18.c', '%s_%s with an arbitrary %d-round schedule and arbitrary data: no store instruction executed by the call targets the schedule object, and it is byte-identical afterwards (so any number of threads may share it)' % (nm[c], what, nr),
                            defs={'CIPHER': c, 'FN': fn, 'NR': nr, 'VEC': 0}, ll=ll, timeout=900, fsarray=1300, replay='ir'))
        for v in ((0, 128, 256) if c == 1 else (0, 128)):
            L = 8 if (c != 1 or v == 256) else 4
            pll = [LL('src/%s-parallel.c' % nm[c], flags=('-msse2',), ct=True, cflags=('-DWW_MODE',), export=tuple('%s_parallel_ecb_vec%d' % (nm[c], w) for w in ((128, 256) if c == 1 else (128,))))] + ll
            if v or True:
                for w in ((128, 256) if c == 1 else (128,)):
                    pll.append(LL('src/%s-parallel-vec%d.c' % (nm[c], w), flags=('-mavx2' if w == 256 else '-msse2',), ct=True, cflags=('-DWW_MODE',)))
            for fn, what in (((10, 'encrypt'), (11, 'decrypt')) if c != 3 else ((10, 'crypt'),)):
                qs.append(Q('readonly:%s-parallel-%s:%s' % (nm[c], 'generic' if v == 0 else 'vec%d' % v, what), 'c18.c',
                            '%s_parallel_ecb_%s on %d blocks through the %s back end (arbitrary schedule, 2 rounds%s): no store targets the parallel-ECB object or its schedule; both unchanged afterwards' % (nm[c], what, L + 1, 'generic' if v == 0 else 'vec%d' % v, ', Mantis 5' if c == 3 else ''),
                            defs={'CIPHER': c, 'FN': fn, 'NR': (5 if c == 3 else 2), 'VEC': v, 'NBLK': L + 1}, ll=pll, timeout=900, fsarray=1300, replay='ir'))
    return dict(queries=qs, level='model_checking', pre=[pre_static_inventory],
                functions=['skinny{64,128}_ecb_encrypt/decrypt, mantis_ecb_crypt(_tweaked)', '{skinny128,skinny64,mantis}_parallel_ecb_{encrypt,decrypt,crypt} with every back end', 'symbol tables of all 18 library objects'],
                bounds={'what is decided': 'PARTIAL: sequential frame conditions, not interleavings (CBMC\'s concurrency mode is unsound for this pointer code: "pointer handling for concurrency is unsound", no verdict). (a) no writable static-lifetime object exists in the library (symbol-table inventory, regenerated every run); '
                                           '(c) for all inputs, no store executed by a read-only processing function targets the schedule / parallel-ECB object passed as pointer-to-const (store hook on clang IR), and the object is byte-identical afterwards; '
                                           '(d) writes stay inside the caller\'s objects: C09. From (a), (c), (d): calls on distinct objects have disjoint write sets and no shared mutable reads, concurrent readers of one schedule write nothing - data-race freedom follows by a meta-argument that is not a solver result',
                        'rounds': 'full depth for the single-block functions (quick: the largest variant; thorough: all), 2 rounds (Mantis 5) for the parallel drivers'},
                outside=['interleavings themselves', 'mutable statics, if the inventory ever finds one, are reported with the symbol name (the replay is the nm listing of the real object)'],
                assumptions=BASE_ASSUMPTIONS + ['clang-14 -O1 IR with a store hook emitted by ll2c at every store and memory intrinsic'])
