from vlib.core import Q
from vlib.common import *
from vlib import lcplan

def plan(tier):
    qs = lcplan.err_queries(tier) + lcplan.inert_queries(tier) + lcplan.par_err_queries(tier)
    qs += [q for q in lcplan.par_allocfail_queries(tier) if q.name.startswith('inert')]
    # invalid byte counts larger than a batch, through the real drivers and the real batch functions of every back end
    from vlib.core import LL
    for (c, v, L) in [(1, 0, 4), (1, 128, 4), (1, 256, 8), (2, 0, 8), (2, 128, 8), (3, 0, 8), (3, 128, 8)]:
        nmx = '%s-%s' % (CTR_CIPH[c], 'generic' if v == 0 else 'vec%d' % v)
        ll = [LL('src/%s-parallel-vec%d.c' % (CTR_CIPH[c], v), flags=('-mavx2' if v == 256 else '-msse2',))] if v else []
        for d in ((0,) if c == 3 else (0, 1)):
            for (nb, extra) in ((L, 1), (2 * L, 3)):
                qs.append(Q('badsize:%s:%s:%dblk+%d' % (nmx, 'dec' if d else 'enc', nb, extra), 'c07.c',
                            'parallel %s of %d blocks + %d bytes on the %s back end (real driver and batch functions, 1-round arbitrary schedule): returns 0 and the output buffer is byte-identical' % ('decrypt' if d else 'encrypt/crypt', nb, extra, nmx),
                            defs={'CIPHER': c, 'VEC': v, 'OB_BADSIZE': 1, 'NBLK': nb, 'EXTRA': extra, 'DIR': d, 'NR': 1}, ll=ll, timeout=900, fsarray=1300, sanitize=True))
    return dict(queries=qs, level='model_checking', pre=[pre_layout],
                functions=['every int-returning public CTR function (dispatcher + generic back end; vector back-end entry points from clang IR)', 'every public parallel-ECB function',
                           'plain key/tweak functions: null object / null key classes are in C10/C04 harnesses (reject, badlen, null)'],
                bounds={'object states': 'live object with ARBITRARY context bytes (offset <= B, rounds <= max), zeroed / cleaned-up / failed-init handles (inert set)',
                        'argument classes': '11 per CTR back end, 10 per parallel object kind (null object/key/data, lengths out of range incl. 0xFFFFFFFF, Mantis rounds 4 and 9, byte counts not a multiple of the block)',
                        'effect': 'return 0; context, handle and caller buffers byte-identical; no pointer check fires'},
                outside=['valid calls return 1: decided in C04/C05/C07/C10/C15'],
                assumptions=BASE_ASSUMPTIONS + ['"later results as if the call had not been made" follows from state unchanged + results are a function of state and inputs (C11)'])
