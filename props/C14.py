from vlib.core import Q
from vlib.common import *
from vlib import lcplan

def plan(tier):
    qs = lcplan.err_queries(tier) + lcplan.inert_queries(tier) + lcplan.par_err_queries(tier)
    qs += [q for q in lcplan.par_allocfail_queries(tier) if q.name.startswith('inert')]
    return dict(queries=qs, level='model_checking', pre=[pre_layout],
                functions=['every int-returning public CTR function (dispatcher + generic back end; vector back-end entry points from clang IR)', 'every public parallel-ECB function',
                           'plain key/tweak functions: null object / null key classes are in C10/C04 harnesses (reject, badlen, null)'],
                bounds={'object states': 'live object with ARBITRARY context bytes (offset <= B, rounds <= max), zeroed / cleaned-up / failed-init handles (inert set)',
                        'argument classes': '11 per CTR back end, 10 per parallel object kind (null object/key/data, lengths out of range incl. 0xFFFFFFFF, Mantis rounds 4 and 9, byte counts not a multiple of the block)',
                        'effect': 'return 0; context, handle and caller buffers byte-identical; no pointer check fires'},
                outside=['valid calls return 1: decided in C04/C05/C07/C10/C15'],
                assumptions=BASE_ASSUMPTIONS + ['"later results as if the call had not been made" follows from state unchanged + results are a function of state and inputs (C11)'])
