from vlib.core import Q, LL
from vlib.common import *
import importlib.util, os, re, copy

def other_plan(pid, tier):
    here = os.path.dirname(os.path.abspath(__file__))
    spec = importlib.util.spec_from_file_location(pid, os.path.join(here, pid + '.py')); m = importlib.util.module_from_spec(spec); spec.loader.exec_module(m)
    return m.plan(tier)['queries']

SCALAR_CFGS = []
for w in (1, 0):
    for u in (1, 0):
        for le in (1, 0):
            SCALAR_CFGS.append(('w%d-u%d-le%d' % (64 if w else 32, u, le), {'64BIT': w, 'UNALIGNED': u, 'LITTLE_ENDIAN': le, 'VEC128_MATH': 0 if le == 0 else 1, 'VEC256_MATH': 0 if le == 0 else 1}))
VEC_CFGS = [('w%d-u%d' % (64 if w else 32, u), {'64BIT': w, 'UNALIGNED': u}) for w in (1, 0) for u in (1, 0)]

def plan(tier):
    qs = []
    c01 = other_plan('C01', tier); c02 = other_plan('C02', tier); c10 = other_plan('C10', 'quick'); c04 = other_plan('C04', 'quick')
    if tier == 'quick':
        # default tuple is C01/C02 themselves; here: every other scalar tuple with the localising obligations and one e2e per cipher
        pat = re.compile(r'^(sbox:|round:|sched:skinny(128-384|64-192)|e2e:skinny128-256:(enc|dec)|e2e:skinny64-128:(enc|dec)|e2e:r5:(enc|dec):via0|e2e:r8:enc:via1|e2e:r5:enc:via2|e2e:r8:dec:via3|sbox$)')
        pat10 = re.compile(r'^accept:skinny(128:plain:(21|47)|64:tweaked:13):ir$')
        pat04 = re.compile(r'^(step:skinny(128-k16:t3|64-k16:t8)|e2e:skinny64-k8:dec:t8)$')
    else:
        pat = re.compile(r'.'); pat10 = re.compile(r'^accept:.*:(plain|tweaked):\d+(:ir)?$'); pat04 = re.compile(r'^(step|e2e|base|null):')
    for cname, cfg in SCALAR_CFGS:
        if cname == 'w64-u1-le1' and tier == 'quick': continue          # the shipped tuple: C01/C02/C04/C10 run it
        for src in (c01, c02):
            for q in src:
                if not pat.search(q.name): continue
                q2 = copy.copy(q); q2.name = 'cfg:%s:%s' % (cname, q.name); q2.cfg = dict(cfg); q2.desc = q.desc + ' [configuration %s]' % cname; q2.group = 'cfg'
                qs.append(q2)
        for src, p in ((c10, pat10), (c04, pat04)):
            for q in src:
                if not p.search(q.name): continue
                if q.cfg: continue
                q2 = copy.copy(q); q2.name = 'cfg:%s:%s' % (cname, q.name); q2.cfg = dict(cfg); q2.desc = q.desc + ' [configuration %s]' % cname; q2.group = 'cfg'
                qs.append(q2)
    # vector back ends under the word-size / unaligned switches (their S-box interleaving and write-back code differ)
    c07 = other_plan('C07', tier); c05 = other_plan('C05', 'quick')
    for cname, cfg in VEC_CFGS:
        if cname == 'w64-u1' and tier == 'quick': continue
        for q in c07:
            if not q.name.startswith('batch:'): continue
            if tier == 'quick' and ('mantis' in q.name): continue
            q2 = copy.copy(q); q2.name = 'veccfg:%s:%s' % (cname, q.name); q2.cfg = dict(cfg); q2.desc = q.desc + ' [configuration %s]' % cname; q2.group = 'veccfg'
            qs.append(q2)
        for q in c05:
            if not (q.name.startswith('step:') and '-vec' in q.name and re.search(r':o(\d+):n1$', q.name)): continue
            if tier == 'quick' and ('vec256' in q.name or 'mantis' in q.name) and not q.name.endswith(':o1:n1'): continue
            q2 = copy.copy(q); q2.name = 'veccfg:%s:%s' % (cname, q.name); q2.cfg = dict(cfg); q2.desc = q.desc + ' [configuration %s]' % cname; q2.group = 'veccfg'
            qs.append(q2)
    # compiler slice: clang IR of the scalar files at other optimisation levels against the same specification models
    for opt in (('-O2',) if tier == 'quick' else ('-O0', '-O2', '-O3')):
        for cb, blk, nm in ((8, 16, 'skinny128'), (4, 8, 'skinny64')):
            for kl in ((2 * blk,) if tier == 'quick' else (blk, 2 * blk, 3 * blk)):
                for d in (0, 1):
                    qs.append(Q('clang%s:%s-%d:%s' % (opt, nm, kl * 8, 'dec' if d else 'enc'), 'c12ir.c',
                                'clang-14 %s IR of src/%s-cipher.c (translated by ll2c): set_key ; ecb_%s == specification, forall %d-byte keys and blocks' % (opt, nm, 'decrypt' if d else 'encrypt', kl),
                                defs={'CB': cb, 'KEYLEN': kl, 'DIR': d}, ll=[LL('src/%s-cipher.c' % nm, opt=opt, flags=('-msse2',))], timeout=1800, fsarray=2048, objbits=(12 if opt == '-O0' else None)))
        for r, mode in (((5, 1), (8, 0)) if tier == 'quick' else [(r, m) for r in (5, 6, 7, 8) for m in (0, 1)]):
            qs.append(Q('clang%s:mantis:r%d:%s' % (opt, r, 'enc' if mode else 'dec'), 'c12ir.c', 'clang-14 %s IR of src/mantis-cipher.c: set_key ; set_tweak ; ecb_crypt == specification MANTIS-%d' % (opt, r),
                        defs={'MANTIS': 1, 'R': r, 'MODE': mode}, ll=[LL('src/mantis-cipher.c', opt=opt, flags=('-msse2',))], timeout=1800, fsarray=2048, objbits=(12 if opt == '-O0' else None)))
    return dict(queries=qs, level='translation_validation', pre=[pre_model_selftest, pre_ll_diff],
                functions=['every function of C01, C02, C04 (selected), C10 (selected) under each scalar configuration tuple', 'vector batch functions and CTR steps under the word-size / unaligned-access switches', 'clang-14 IR of the scalar cipher files at -O0/-O2/-O3'],
                bounds={'configurations': 'SKINNY_64BIT x SKINNY_UNALIGNED x SKINNY_LITTLE_ENDIAN (byte-order-neutral scalar code with SIMD off when 0) = 8 scalar tuples through the hook in src/skinny-internal.h; 4 (word size, unaligned) tuples for the vector back ends; SIMD stubbed out: C13',
                        'obligations per tuple': 'quick: S-box lanes, one round both directions, full key schedules of the largest variants, one end-to-end cipher per SKINNY block size, two Mantis end-to-end, tweak step, in-between key lengths; thorough: everything of C01/C02 and the selected C04/C10 obligations',
                        'compilers': 'clang-14 -O2 (quick) and -O0/-O2/-O3 (thorough) IR, loop vectoriser off; gcc\'s optimiser cannot be reached by this technique: the claim for gcc rests on the source-level obligations (UB-free, configuration-independent C)',
                        'equality': 'every configuration is proved equal to the same specification model, hence to every other'},
                outside=['gcc code generation', 'big-endian hosts (the LE=0 code is run on the little-endian host model, as the property asks)'],
                assumptions=BASE_ASSUMPTIONS + [MODEL_ASSUMPTION, 'll2c translator validated differentially on every run'])
