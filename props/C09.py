from vlib.core import Q, LL
from vlib.common import *
import importlib.util, os, re

def other_plan(pid, tier):
    here = os.path.dirname(os.path.abspath(__file__))
    spec = importlib.util.spec_from_file_location(pid, os.path.join(here, pid + '.py')); m = importlib.util.module_from_spec(spec); spec.loader.exec_module(m)
    return m.plan(tier)['queries']

def pre_align_audit(R):
    """auxiliary audit (not the deciding step): in the SKINNY_UNALIGNED=0 configuration no load/store through a pointer derived
    from a function argument of the public single-block / CTR / parallel functions may assume more than byte alignment"""
    import re
    from vlib.core import INC, GUARD
    bad = []; files = 0
    for f in ['skinny128-cipher', 'skinny64-cipher', 'mantis-cipher', 'skinny128-ctr', 'skinny64-ctr', 'mantis-ctr', 'skinny128-parallel', 'skinny64-parallel', 'mantis-parallel']:
        ll = os.path.join(R.scratch, 'al_%s.ll' % f)
        rc, out, _, _, _ = sh(['clang-14', '-std=c99', '-O1', '-fno-vectorize', '-fno-slp-vectorize', '-D' + GUARD, '-D%s_UNALIGNED=0' % GUARD, '-D%s_VEC128_MATH=0' % GUARD, '-D%s_VEC256_MATH=0' % GUARD] + INC +
                              ['-S', '-emit-llvm', os.path.join(REPO, 'src', f + '.c'), '-o', ll], timeout=120)
        if rc: return False, 'alignment audit: clang failed on %s' % f
        files += 1; fn = None; argptr = set()
        for line in open(ll):
            m = re.match(r'define .*@([\w.]+)\((.*)\)', line)
            if m:
                fn = m.group(1); argptr = set(re.findall(r'i8\* [^,)]*?(%\d+|%[\w.]+)', m.group(2)))
                derived = set(argptr); continue
            if fn is None: continue
            if line.startswith('}'): fn = None; continue
            m = re.match(r'\s*(%[\w.]+) = (getelementptr|bitcast)[^%]*?(%[\w.]+)', line)
            if m and m.group(3) in derived: derived.add(m.group(1))
            m = re.search(r'(load|store) .*?(%[\w.]+), align (\d+)', line)
            if m and m.group(2) in derived and int(m.group(3)) > 1:
                bad.append('%s:%s align %s' % (f, fn, m.group(3)))
    return (not bad), 'alignment audit of clang IR with SKINNY_UNALIGNED=0 (%d files): %s' % (files, 'every access through caller pointers is byte-aligned' if not bad else 'WIDER ACCESS ' + '; '.join(bad[:5]))

def plan(tier):
    qs = []
    full = {1: 56, 2: 40, 3: 8}; blkof = {1: 16, 2: 8, 3: 8}; nm = {1: 'skinny128', 2: 'skinny64', 3: 'mantis'}
    for c in (1, 2, 3):
        blk = blkof[c]
        for d in (0, 1):
            fn = ('ecb_decrypt' if d else 'ecb_encrypt') if c != 3 else ('ecb_crypt_tweaked' if d else 'ecb_crypt')
            qs.append(Q('extent:%s:%s' % (nm[c], fn), 'c09.c', '%s_%s with input, output (and tweak) as exact-extent heap objects, arbitrary full-depth schedule and data: no access outside them, inputs only read, result as with any other placement' % (nm[c], fn),
                        defs={'CIPHER': c, 'OB_EXTENT': 1, 'DIR': d, 'NR': full[c]}, timeout=1200, sanitize=True))
            pairs = [(0, j) for j in range(0, blk)] + [(i, 0) for i in range(1, blk)]
            if tier == 'quick': pairs = [(0, 0), (0, 1), (1, 0), (0, blk // 2), (blk // 2, 0), (0, blk - 1), (blk - 1, 0), (3, 0), (0, 5)]
            for (i, j) in pairs:
                deep = (i, j) in ((0, 0), (1, 0), (0, 1)) and tier == 'thorough'
                nr = full[c] if deep else (5 if c == 3 else 2)
                qs.append(Q('overlap:%s:%s:out+%d:in+%d' % (nm[c], fn, i, j), 'c09.c', '%s_%s with output = buf+%d and input = buf+%d in one buffer (arbitrary %d-round schedule, arbitrary data): same result as with disjoint buffers' % (nm[c], fn, i, j, nr),
                            defs={'CIPHER': c, 'OB_OVERLAP': 1, 'DIR': d, 'NR': nr, 'I': i, 'J': j}, timeout=900, sanitize=True))
    # bulk functions and key / tweak / counter buffers: the obligations of C05, C07, C10 and C04 already run on exact-extent
    # heap objects (malloc of exactly the documented size) with CBMC's bounds and pointer checks; the relevant ones are part of this check too
    pick = []
    for q in other_plan('C05', tier):
        if q.name.startswith('step:') and (':inplace' in q.name or ':n1' == q.name[-3:] or q.name.endswith(':n0')): pick.append(q)
        if q.name.startswith('setctr:') and (':len1' in q.name or ':len0' in q.name or 'null' in q.name): pick.append(q)
    for q in other_plan('C07', tier):
        if q.name.startswith('driver:') and (':inplace' in q.name or ':n1:' in q.name or ':n0:' in q.name): pick.append(q)
    for q in other_plan('C10', tier):
        if q.name.startswith('accept:') and (':plain:' in q.name or ':tweaked:' in q.name) and (tier == 'thorough' or (':ir' in q.name and re.search(r':(17|19|33|47|9|23):', q.name))): pick.append(q)
    for q in other_plan('C04', tier):
        if q.name.startswith('step:'): pick.append(q)
    for q in pick:
        q.name = 'shared-' + q.name; q.group = 'shared'
    qs += pick
    return dict(queries=qs, level='model_checking', pre=[pre_align_audit, pre_layout, pre_model_selftest, pre_ll_diff],
                functions=['skinny{64,128}_ecb_encrypt/decrypt, mantis_ecb_crypt(_tweaked) (exact extents, overlap)', 'CTR encrypt / set_counter on every back end (exact extents, out == in): C05 harness',
                           'parallel ECB drivers on every back end (exact extents, out == in): C07 harness', 'key and tweak buffers of exact length: C10 / C04 harnesses'],
                bounds={'extents': 'every caller buffer is a heap object of exactly the documented size; CBMC bounds/pointer checks (incl. 16-/32-byte vector accesses as translated from IR) decide that nothing outside is touched, for all contents',
                        'overlap': 'quick: 9 (out, in) offset pairs per function at 2 rounds (Mantis 5); thorough: all 2*blk-1 pairs, three of them at full depth', 'aliasing of bulk calls': 'out == in on the (offset, size) / block-count grids of C05 / C07',
                        'alignment': 'CBMC has no alignment model: results cannot depend on alignment inside the model and misaligned accesses are not flagged; an IR audit of the SKINNY_UNALIGNED=0 configuration is reported as a pre-check'},
                outside=['compiler alignment assumptions in gcc output', 'SKINNY_UNALIGNED=1 wide accesses are the documented platform assumption'],
                assumptions=BASE_ASSUMPTIONS + [MODEL_ASSUMPTION])
