from vlib.core import Q, LL
from vlib.common import *

GEN_OFF = {1: 504, 2: 188, 3: 56}          # offsetof(generic ctx, offset); checked by pre_gen_layout
ROUNDS_OFF = {1: 0, 2: 0, 3: 32}

def pre_gen_layout(R):
    import os
    from vlib.core import INC, GUARD
    ok = True; notes = []
    for c, n, t in ((1, 'skinny128', 'Skinny128CTRCtx_t'), (2, 'skinny64', 'Skinny64CTRCtx_t'), (3, 'mantis', 'MantisCTRCtx_t')):
        src = os.path.join(R.scratch, 'glay_%s.c' % n)
        with open(src, 'w') as f:
            f.write('#include <stdio.h>\n#include <stddef.h>\n#include "%s/src/%s-ctr.c"\nint main(void){ printf("%%zu %%zu\\n", offsetof(%s,offset), offsetof(MantisKey_t,rounds)); return 0; }\n' % (REPO, n, t) if c == 3 else
                    '#include <stdio.h>\n#include <stddef.h>\n#include "%s/src/%s-ctr.c"\nint main(void){ printf("%%zu 0\\n", offsetof(%s,offset)); return 0; }\n' % (REPO, n, t))
        exe = src[:-2]
        rc, out, _, _, _ = sh(['gcc', '-std=c99', '-O0', '-w', '-D' + GUARD, '-no-pie', '-Wl,--unresolved-symbols=ignore-all'] + INC + [src, '-o', exe], timeout=120)
        if rc: return False, 'generic layout: cannot compile: ' + out[-300:]
        rc, out, _, _, _ = sh([exe], timeout=30)
        a, b = [int(x) for x in out.split()]
        if a != GEN_OFF[c] or b != ROUNDS_OFF[c]: ok = False; notes.append('%s: gcc %d/%d' % (n, a, b))
    return ok, 'generic CTR context layout (gcc offsetof vs C08 constants): ' + ('ok' if ok else 'MISMATCH ' + '; '.join(notes))

def plan(tier):
    qs = []
    opt = '-O1' if tier == 'quick' else '-O3'
    def cq(name, desc, defs, ll, timeout=1200):
        return Q(name, 'c08.c', 'forall pairs of secrets (key, tweak, counter, data, whole prior context) with equal public parameters: ' + desc + ' - identical branch and address event traces [clang %s IR]' % opt,
                 defs=defs, ll=ll, timeout=timeout, fsarray=6100, replay='ir', mem_gb=16, unwind=1400, mem_est=1.5)
    def ciph_ll(n): return [LL('src/%s-cipher.c' % n, flags=('-msse2',), ct=True, opt=opt)]
    # ---- single-block API
    for case0, n, blk, rr in ((0, 'skinny128', 16, (40, 48, 56)), (10, 'skinny64', 8, (32, 36, 40))):
        kls = [blk, blk + 5] if tier == 'quick' else list(range(blk, 3 * blk + 1))
        for kl in kls:
            qs.append(cq('%s:set_key:%d' % (n, kl), '%s_set_key with a %d-byte key' % (n, kl), {'CASE': case0 + 1, 'KLEN': kl}, ciph_ll(n)))
        for kl in ([2 * blk] if tier == 'quick' else list(range(blk, 2 * blk + 1))):       # 2*blk exercises TK1 (tweak), TK2 and TK3
            qs.append(cq('%s:set_tweaked_key:%d' % (n, kl), '%s_set_tweaked_key with a %d-byte key' % (n, kl), {'CASE': case0 + 2, 'KLEN': kl}, ciph_ll(n)))
        for tl in ([1, blk] if tier == 'quick' else list(range(1, blk + 1))):
            for r in (rr[1:] if tier == 'thorough' else rr[2:]):
                qs.append(cq('%s:set_tweak:%d:r%d' % (n, tl, r), '%s_set_tweak(%d bytes) on an arbitrary %d-round tweaked schedule' % (n, tl, r), {'CASE': case0 + 3, 'TLEN': tl, 'ROUNDS': r, 'ROUNDS_OFF': 0}, ciph_ll(n)))
        for r in rr:
            qs.append(cq('%s:encrypt:r%d' % (n, r), '%s_ecb_encrypt on an arbitrary %d-round schedule' % (n, r), {'CASE': case0 + 4, 'ROUNDS': r, 'ROUNDS_OFF': 0}, ciph_ll(n)))
            qs.append(cq('%s:decrypt:r%d' % (n, r), '%s_ecb_decrypt on an arbitrary %d-round schedule' % (n, r), {'CASE': case0 + 5, 'ROUNDS': r, 'ROUNDS_OFF': 0}, ciph_ll(n)))
    for r in ((5, 8) if tier == 'quick' else (5, 6, 7, 8)):
        for mode in (0, 1):
            qs.append(cq('mantis:set_key:r%d:m%d' % (r, mode), 'mantis_set_key(rounds %d, mode %d)' % (r, mode), {'CASE': 21, 'ROUNDS': r, 'MODE': mode}, ciph_ll('mantis')))
        qs.append(cq('mantis:crypt:r%d' % r, 'mantis_ecb_crypt on an arbitrary %d-round schedule image' % r, {'CASE': 24, 'ROUNDS': r, 'ROUNDS_OFF': 32}, ciph_ll('mantis')))
        qs.append(cq('mantis:crypt_tweaked:r%d' % r, 'mantis_ecb_crypt_tweaked on an arbitrary %d-round schedule image' % r, {'CASE': 25, 'ROUNDS': r, 'ROUNDS_OFF': 32}, ciph_ll('mantis')))
    qs.append(cq('mantis:set_tweak', 'mantis_set_tweak', {'CASE': 22, 'ROUNDS': 5, 'ROUNDS_OFF': 32}, ciph_ll('mantis')))
    qs.append(cq('mantis:swap_modes', 'mantis_swap_modes', {'CASE': 23, 'ROUNDS': 5, 'ROUNDS_OFF': 32}, ciph_ll('mantis')))
    # ---- CTR back ends
    for (c, v) in CTR_BACKENDS:
        n = CTR_CIPH[c]; blk = 16 if c == 1 else 8
        lanes = {(1, 0): 1, (1, 128): 4, (1, 256): 8, (2, 0): 1, (2, 128): 8, (3, 0): 1, (3, 128): 8}[(c, v)]; B = blk * lanes
        name = be_name(c, v)
        funcs = [f for f in CTR_FUNCS if not (c == 3 and f == 'set_tweaked_key')]
        if v:
            pref = '%s_ctr_vec%d' % (n, v)
            ll = [LL('src/%s-ctr-vec%d.c' % (n, v), flags=('-mavx2' if v == 256 else '-msse2',), export=tuple('%s_%s' % (pref, f) for f in funcs), ct=True, opt=opt)] + ciph_ll(n)
            off = VLAYOUT[(c, v)][3]
        else:
            pref = '%s_ctr_def' % n
            ll = [LL('src/%s-ctr.c' % n, flags=('-msse2',), export=tuple('%s_%s' % (pref, f) for f in funcs), ct=True, opt=opt)] + ciph_ll(n)
            off = GEN_OFF[c]
        r = 5 if c == 3 else 2
        base = {'CIPHER': c, 'CTRF': pref, 'OFFSET_OFF': off, 'ROUNDS_OFF': ROUNDS_OFF[c], 'ROUNDS': r, 'O': B}
        pts = [(B, B + 1), (1, blk), (B - 1, 2)] if tier == 'quick' else [(B, 0), (B, 1), (B, blk), (B, B), (B, B + 1), (B, 2 * B + 1), (0, 1), (1, blk), (blk, blk + 1), (B - 1, 2), (B - 1, B + 2)]
        for (o, nn) in pts:
            qs.append(cq('ctr:%s:encrypt:o%d:n%d' % (name, o, nn), 'CTR encrypt of %d bytes on the %s back end from offset %d (arbitrary context, %d-round schedule)' % (nn, name, o, r), dict(base, CASE=31, O=o, N=nn), ll))
        for ln in ((0, 3, blk) if tier == 'quick' else range(0, blk + 1)):
            qs.append(cq('ctr:%s:set_counter:%d' % (name, ln), 'set_counter(%d bytes) on the %s back end' % (ln, name), dict(base, CASE=32, LEN=ln), ll))
        if c != 3:
            for kl in ((blk,) if tier == 'quick' else (blk, 3 * blk)):
                qs.append(cq('ctr:%s:set_key:%d' % (name, kl), 'set_key(%d bytes) through the %s back end' % (kl, name), dict(base, CASE=33, KLEN=kl), ll))
            qs.append(cq('ctr:%s:set_tweak' % name, 'set_tweak through the %s back end (48/36-round tweaked schedule)' % name, dict(base, CASE=34, TLEN=blk, ROUNDS=(48 if c == 1 else 36)), ll))
        else:
            qs.append(cq('ctr:%s:set_key' % name, 'set_key through the %s back end' % name, dict(base, CASE=33), ll))
            qs.append(cq('ctr:%s:set_tweak' % name, 'set_tweak through the %s back end' % name, dict(base, CASE=34, TLEN=8), ll))
    # ---- parallel batch functions
    for (c, v, fns) in ((1, 128, ('encrypt', 'decrypt')), (1, 256, ('encrypt', 'decrypt')), (2, 128, ('encrypt', 'decrypt')), (3, 128, ('crypt',))):
        n = CTR_CIPH[c]
        for fn in fns:
            sym = 'll__%s_parallel_%s_vec%d' % (n, fn, v); r = 5 if c == 3 else 2
            qs.append(cq('par:%s-vec%d:%s' % (n, v, fn), 'batch function %s (arbitrary %d-round schedule, arbitrary data)' % (sym[3:], r),
                         {'CASE': 41, 'CIPHER': c, 'PARF': sym, 'ROUNDS': r, 'ROUNDS_OFF': ROUNDS_OFF[c]},
                         [LL('src/%s-parallel-vec%d.c' % (n, v), flags=('-mavx2' if v == 256 else '-msse2',), ct=True, opt=opt)]))
    return dict(queries=qs, level='model_checking', pre=[pre_layout, pre_gen_layout],
                functions=['every public single-block function of the three ciphers', 'every CTR back end: encrypt, set_counter, set_key, set_tweak (generic ones from src/*-ctr.c, vector ones from src/*-ctr-vec*.c)', 'vector batch functions of parallel ECB',
                           'all as clang-14 IR with branch/address hooks emitted by ll2c'],
                bounds={'public parameters': 'key lengths (quick: smallest and one in-between for set_key, the largest through set_tweaked_key; thorough: every length), tweak and counter lengths, round counts as shipped for single-block functions, 2 rounds (Mantis 5) for CTR / parallel glue, Mantis mode, (offset, size) points of the CTR grid',
                        'secrets': 'key, tweak, counter, data and the whole prior context except round count and keystream offset: two independent symbolic assignments', 'compiler': 'clang-14 %s IR (quick -O1, thorough -O3 as shipped); gcc machine code is outside the reach of this technique' % opt,
                        'events': 'conditional branches, switches, loads, stores, memory intrinsics (address and length); select instructions are treated as constant-time'},
                outside=['gcc code generation', 'dispatchers and init (no secrets)', 'driver loops of parallel ECB (sizes are public; C07)'],
                assumptions=BASE_ASSUMPTIONS + ['alloca objects are emitted as function-level statics in this mode so that object identities are comparable between the two runs (no recursion in the code base)'])
