from vlib.core import Q
from vlib.common import *

def plan(tier):
    qs = []
    for cb, blk, nm in ((8, 16, 'skinny128'), (4, 8, 'skinny64')):
        for z in (1, 2, 3):
            for order in (0, 1):
                qs.append(Q('rt:%s-%d:%s' % (nm, z * blk * 8, 'dec.enc' if order == 0 else 'enc.dec'), 'c03.c',
                            'forall %d-byte keys, forall blocks: %s on the real %s code (both directions composed, %d rounds in one query)' % (z * blk, 'dec(enc(x)) == x' if order == 0 else 'enc(dec(x)) == x', nm, 2 * ((40 + 8 * (z - 1)) if cb == 8 else (32 + 4 * (z - 1)))),
                            defs={'OB_RT': 1, 'CB': cb, 'KEYLEN': z * blk, 'ORDER': order}, timeout=900))
    qs.append(Q('mantis:swap2', 'c03.c', 'forall schedule images (k0, k0\', k1, tweak, rounds arbitrary): swap(swap(s)) == s', defs={'OB_SWAP2': 1}, timeout=300))
    qs.append(Q('mantis:swaptweak', 'c03.c', 'forall schedule images, forall tweaks: set_tweak(swap(s), T) == swap(set_tweak(s, T)) (one step from an arbitrary state: any interleaving of switches and tweak changes follows by induction)', defs={'OB_SWAPTWEAK': 1}, timeout=300))
    qs.append(Q('mantis:pswap', 'c03.c', 'mantis_parallel_ecb_swap_modes switches the wrapped schedule as mantis_swap_modes does; null / inert handles are ignored', defs={'OB_PSWAP': 1}, timeout=300))
    for r in (5, 6, 7, 8):
        for mode in (1, 0):
            qs.append(Q('mantis:swapkey:r%d:%s' % (r, 'enc' if mode else 'dec'), 'c03.c', 'forall keys, tweaks: set_key(K, %s); set_tweak(T); swap  ==  set_key(K, other mode); set_tweak(T), field by field (rounds=%d)' % ('ENCRYPT' if mode else 'DECRYPT', r),
                        defs={'OB_SWAPKEY': 1, 'R': r, 'MODE': mode}, timeout=300))
        qs.append(Q('mantis:swapinv:r%d' % r, 'c03.c', 'forall schedule images with %d rounds (arbitrary k0, k0\', k1, tweak), forall blocks: crypt(swap(s), crypt(s, x)) == x' % r, defs={'OB_SWAPINV': 1, 'R': r}, timeout=1800))
    # parallel entry points: direct round trips through the real drivers and batch functions of every back end
    from vlib.core import LL
    PBE = [(1, 0, 4), (1, 128, 4), (1, 256, 8), (2, 0, 8), (2, 128, 8), (3, 0, 8), (3, 128, 8)]
    FULL = {1: 56, 2: 40, 3: 8}
    for (c, v, L) in PBE:
        nm = '%s-%s' % (CTR_CIPH[c], 'generic' if v == 0 else 'vec%d' % v)
        ll = [LL('src/%s-parallel-vec%d.c' % (CTR_CIPH[c], v), flags=('-mavx2' if v == 256 else '-msse2',))] if v else []
        counts = [L + 1, 2 * L + 1] if tier == 'quick' else [1, L - 1, L, L + 1, 2 * L, 2 * L + 1]
        for nb in counts:
            for d in ((0,) if c == 3 else (0, 1)):
                deep = (nb == L + 1 and c != 3)
                nr = FULL[c] if deep else ((1 if (tier == 'quick' or nb > L) else 5) if c == 3 else 2)     # Mantis full-depth inverse: mantis:swapinv obligations
                qs.append(Q('par-rt:%s:n%d:%s:r%d' % (nm, nb, 'dec.enc' if d == 0 else 'enc.dec', nr), 'c07.c',
                            'parallel %s on %d blocks through the real driver and the %s back end, arbitrary %d-round schedule, arbitrary data: returns the original blocks' % ('decrypt(encrypt(m))' if d == 0 else 'encrypt(decrypt(m))', nb, nm, nr),
                            defs={'CIPHER': c, 'VEC': v, 'OB_RT': 1, 'NBLK': nb, 'DIR': d, 'NR': nr}, ll=ll, timeout=3600, fsarray=1300, sanitize=True))
    return dict(queries=qs, level='model_checking', pre=[pre_ll_diff],
                functions=['skinny{64,128}_set_key', 'skinny{64,128}_ecb_encrypt', 'skinny{64,128}_ecb_decrypt', 'mantis_swap_modes', 'mantis_set_key', 'mantis_set_tweak', 'mantis_ecb_crypt', 'mantis_parallel_ecb_swap_modes'],
                bounds={'skinny': 'six variants, both composition orders, every key and block bit symbolic, full depth', 'mantis': 'schedule images fully symbolic; rounds 5..8 for the inverse and re-keying obligations',
                        'histories': 'one-step commutation from arbitrary states; induction over the history is a meta-step', 'parallel entry points': 'direct round trips through driver + batch functions of every back end for lanes+1 and 2*lanes+1 blocks (quick; more counts thorough), full depth for the lanes+1 case of Skinny, Mantis at 5 rounds; plus C07 (parallel == block-by-block) for the whole grid'},
                outside=['block counts beyond the C07 grid'],
                assumptions=BASE_ASSUMPTIONS)
