from vlib.core import Q
from vlib.common import *

def plan(tier):
    qs = [Q('sbox', 'c02.c', 'forall words: mantis_sbox equals MIDORI Sb0 on every nibble lane', defs={'OB_SBOX': 1, 'R': 5}, timeout=300)]
    via = {0: 'tweak stored with mantis_set_tweak', 1: 'tweak passed per call (mantis_ecb_crypt_tweaked), stored tweak arbitrary', 2: 'fresh schedule (no set_tweak): zero tweak', 3: 'set_tweak(NULL, 8): zero tweak'}
    for r in (5, 6, 7, 8):
        qs.append(Q('lemma:r%d' % r, 'c02.c', 'model-level: MANTIS-%d decryption (alpha reflection) is the step-by-step inverse and inverts encryption, forall key, tweak, block' % r, defs={'OB_LEMMA': 1, 'R': r}, timeout=900))
        for mode in (1, 0):
            for v in ((0, 1, 2, 3) if (tier == 'thorough' or r in (5, 8)) else (0, 1)):
                qs.append(Q('e2e:r%d:%s:via%d' % (r, 'enc' if mode else 'dec', v), 'c02.c',
                            'forall 128-bit keys, 64-bit tweaks, blocks: mantis_set_key(rounds=%d, %s); %s; result == specification MANTIS-%d %s' % (r, 'ENCRYPT' if mode else 'DECRYPT', via[v], r, 'ciphertext' if mode else 'inverse'),
                            defs={'R': r, 'MODE': mode, 'VIA': v}, timeout=1200))
    # the 32-bit word copy of the S-box and of the cipher (the full configuration matrix is C12)
    import copy
    for q0 in list(qs):
        if q0.name == 'sbox' or q0.name in ('e2e:r5:enc:via0', 'e2e:r8:dec:via0', 'e2e:r5:enc:via2', 'e2e:r8:dec:via3') or (tier == 'thorough' and q0.name.startswith('e2e:')):
            q2 = copy.copy(q0); q2.name = q0.name + ':w32'; q2.cfg = {'64BIT': 0}; q2.desc = q0.desc + ' [32-bit word path, SKINNY_64BIT=0]'; qs.append(q2)
    if tier == 'thorough':
        for q0 in list(qs):
            if q0.name == 'sbox':
                q2 = copy.copy(q0); q2.name = q0.name + ':builtin-solver'; q2.solver = 'builtin'; q2.desc = q0.desc + ' [decided again by CBMC\'s built-in SAT solver]'; qs.append(q2)
    return dict(queries=qs, level='model_checking', pre=[pre_model_selftest],
                functions=['mantis_set_key', 'mantis_set_tweak', 'mantis_unpack_block', 'mantis_unpack_rotated_block', 'mantis_ecb_crypt', 'mantis_ecb_crypt_tweaked', 'mantis_sbox', 'mantis_update_tweak(_inverse)', 'mantis_shift_rows(_inverse)', 'mantis_mix_columns'],
                bounds={'rounds': '5..8, all loops fully unwound', 'inputs': 'every key, tweak and block bit symbolic', 'entry points': 'quick: stored and per-call tweak for r=6,7, all four ways for r=5,8; thorough: all four for every r'},
                outside=['round counts outside 5..8 are rejected (C10/C14)', 'other build configurations (C12)'],
                assumptions=BASE_ASSUMPTIONS + [MODEL_ASSUMPTION])
