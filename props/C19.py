from vlib.core import Q, LL, VERIF, REPO
from vlib.common import *
import os

CLASSES = [  # name, family, key bytes, tweaked
    ('Skinny128_128', 128, 16, 0), ('Skinny128_256', 128, 32, 0), ('Skinny128_384', 128, 48, 0), ('Skinny128_256_Tweaked', 128, 16, 1), ('Skinny128_384_Tweaked', 128, 32, 1),
    ('Skinny64_64', 64, 8, 0), ('Skinny64_128', 64, 16, 0), ('Skinny64_192', 64, 24, 0), ('Skinny64_128_Tweaked', 64, 8, 1), ('Skinny64_192_Tweaked', 64, 16, 1)]

def plan(tier):
    ll = [LL(os.path.join(VERIF, 'harness', 'c19_shim.cpp'), lang='c++', flags=('-I' + os.path.join(REPO, 'arduino', 'libraries', 'Skinny'),))]
    qs = []
    def q(name, desc, defs, timeout=1800):
        return Q(name, 'c19.c', desc, defs=defs, ll=ll, timeout=timeout, fsarray=1500, unwind=1500, replay='ir', mem_est=2)
    for (k, fam, kl, tw) in CLASSES:
        base = {'K': k, 'FAMILY': fam, 'KEYLEN': kl, 'TWEAKED': tw}
        for d in (0, 1):
            if tier == 'quick' and d == 1 and not tw and kl not in (16, 8): continue      # quick: decryption of the smallest plain class per family and of every tweaked class
            qs.append(q('e2e:%s:%s' % (k, 'dec' if d else 'enc'), 'forall %d-byte keys, forall blocks: %s().setKey ; %sBlock == C library %s ; ecb_%s (full depth%s)' % (kl, k, 'decrypt' if d else 'encrypt', 'set_tweaked_key' if tw else 'set_key', 'decrypt' if d else 'encrypt', ', zero tweak' if tw else ''),
                        dict(base, OB_E2E=1, DIR=d)))
        qs.append(q('badkey:%s' % k, '%s().setKey with %d bytes returns false; keySize/blockSize as documented' % (k, kl + 1), dict(base, OB_BADKEY=1, BADLEN=kl + 1), timeout=600))
        if tw:
            for seq, what in ((1, 'setTweak(T1); setTweak(T2)'), (2, 'setTweak(T1); setTweak(NULL)'), (3, 'setTweak(T1); setTweak(NULL); setTweak(T2)'), (4, 'setTweak(T1); setTweak(T2); setTweak(T3)')):
                if tier == 'quick' and seq not in (3, 4) and not (seq == 2 and k == 'Skinny64_128_Tweaked'): continue
                if tier == 'quick' and seq == 4 and k != 'Skinny64_128_Tweaked': continue
                if tier == 'quick' and seq == 3 and k == 'Skinny128_384_Tweaked': continue      # 5 minutes alone: thorough tier      # quick: the longest history for every class
                for d in ((0, 1) if tier == 'thorough' else (0,)):
                    qs.append(q('tweakseq:%s:seq%d:%s' % (k, seq, 'dec' if d else 'enc'), 'forall key, tweaks, block: %s().setKey ; %s ; %sBlock == C library with only the key and the latest tweak (NULL = all-zero)' % (k, what, 'decrypt' if d else 'encrypt'),
                                dict(base, OB_TWSEQ=1, SEQ=seq, DIR=d)))
    for w, what in ((0, 'fresh key (zero tweak), encryptBlock'), (1, 'setTweak ; encryptBlock'), (2, 'setTweak ; swapModes ; encryptBlock == C decrypt schedule'), (3, 'setTweak ; swapModes twice ; setTweak(NULL) ; encryptBlock'), (4, 'setTweak ; decryptBlock == mantis_ecb_crypt on the same (encryption) schedule, as documented: the mode is chosen with swapModes')):
        qs.append(q('mantis8:%d' % w, 'forall key, tweak, block: Mantis8: %s, against mantis_* with rounds = 8' % what, {'K': 'Mantis8', 'FAMILY': 8, 'KEYLEN': 16, 'TWEAKED': 0, 'OB_MANTIS': 1, 'WHAT': w}))
    for (k, kl) in ((('Skinny128_128', 16),) if tier == 'quick' else (('Skinny128_128', 16), ('Skinny128_256', 32), ('Skinny128_384', 48))):
        for (n1, n2) in (((17, 20),) if tier == 'quick' else ((17, 20), (0, 33), (16, 16), (5, 44))):
            qs.append(q('ctr:%s:%d+%d' % (k, n1, n2), 'forall key, 16-byte IV (all carries, wrap-around), data: CTR<%s> setKey ; setIV ; encrypt(%d) ; encrypt(%d) == input xor E(iv), E(iv+1), ... with the C library cipher' % (k, n1, n2),
                        {'K': k, 'FAMILY': 128, 'KEYLEN': kl, 'TWEAKED': 0, 'OB_CTR': 1, 'N1': n1, 'N2': n2}, timeout=3600))
    for (n1, nbig) in (() if tier == 'quick' else ((5, 4096 + 33), (0, 4096))):      # 15 min per query: thorough tier only
        qs.append(q('ctr-big:%d+%d' % (n1, nbig), 'CTRCommon (the code of every CTR<T>) over a trivial 16-byte block cipher: setKey ; setIV ; encrypt(%d) ; encrypt(%d bytes in one request), arbitrary key, IV and data: every byte position gets its keystream byte (loop counters do not overflow)' % (n1, nbig),
                    {'K': 'VhXor16', 'FAMILY': 128, 'KEYLEN': 16, 'TWEAKED': 0, 'OB_BIGCTR': 1, 'N1': n1, 'NBIG': nbig}, timeout=3600))
        qs[-1].unwind = 9000; qs[-1].fsarray = 9000
    qs.append(q('ctr-rekey:Skinny128_128:5+20', 'forall keys K1, K2, IV, data: CTR<Skinny128_128> setKey(K1) ; setIV ; encrypt(5) ; setKey(K2) ; encrypt(20) == what the C library does for the same calls (the stream continues with the next counter block under K2)',
                {'K': 'Skinny128_128', 'FAMILY': 128, 'KEYLEN': 16, 'TWEAKED': 0, 'OB_CTR': 1, 'REKEY': 1, 'N1': 5, 'N2': 20}, timeout=3600))
    return dict(queries=qs, level='translation_validation', pre=[],
                functions=['Skinny128_128/256/384(_Tweaked), Skinny64_64/128/192(_Tweaked), Mantis8: constructor, setKey, setTweak, swapModes, encryptBlock, decryptBlock, keySize, blockSize', 'CTR<T>/CTRCommon: setKey, setIV, encrypt',
                           'C library functions of the corresponding variants as the other side of the miter'],
                bounds={'classes': 'all 11 block-cipher classes end to end at full depth, both directions; CTR<T> over Skinny128_128 (quick) / all three 16-byte plain classes (thorough)', 'tweak histories': 'T1,T2 - T1,NULL - T1,NULL,T2',
                        'CTR': 'two calls (17+20 bytes quick; four splits thorough), IV fully symbolic', 'path': 'portable C++ path as clang++-14 -O1 compiles it (__AVR__ undefined)'},
                outside=['AVR inline assembly', 'clear() wiping (not part of the stated property)', 'CTR counter sizes other than 16'],
                assumptions=BASE_ASSUMPTIONS + ['clang++-14 -std=c++11 -O1 -fno-exceptions -fno-rtti IR translated by ll2c; virtual calls go through the translated vtables', 'counterexamples are replayed on the IR-derived C compiled natively (no C++ replay shim)'])
