from vlib.core import Q, LL
from vlib.common import *

NAMES = {1: 'skinny128_ctr_init', 2: 'skinny64_ctr_init', 3: 'mantis_ctr_init', 4: 'skinny128_parallel_ecb_init', 5: 'skinny64_parallel_ecb_init', 6: 'mantis_parallel_ecb_init'}
FILES = {1: ('src/skinny128-ctr.c', ('skinny128_ctr_def',)), 2: ('src/skinny64-ctr.c', ('skinny64_ctr_def',)), 3: ('src/mantis-ctr.c', ('mantis_ctr_def',)),
         4: ('src/skinny128-parallel.c', ('skinny128_parallel_ecb_vec128', 'skinny128_parallel_ecb_vec256')),
         5: ('src/skinny64-parallel.c', ('skinny64_parallel_ecb_vec128',)), 6: ('src/mantis-parallel.c', ('mantis_parallel_ecb_vec128',))}

def plan(tier):
    qs = []
    cfgs = [('default', {}, 1, 1), ('no-vec256', {'VEC256_MATH': 0}, 1, 0), ('no-simd', {'VEC128_MATH': 0, 'VEC256_MATH': 0}, 0, 0)]
    opts = ['-O1'] if tier == 'quick' else ['-O1', '-O3', '-O0']
    for cname, cfg, h128, h256 in cfgs:
        for w in range(1, 7):
            for opt in opts:
                f, exp = FILES[w]
                ll = [LL('src/skinny-internal.c', opt=opt, flags=('-msse2', '-mavx2')), LL(f, opt=opt, flags=('-msse2',), export=exp)]
                for pre in ((0, 1, 2) if cname == 'default' else (0,)):
                  qs.append(Q('select:%s:%s:%s%s' % (NAMES[w], cname, opt, '' if pre == 0 else ':after-probe%d' % (128 * pre)), 'c13.c',
                              'forall x86 CPU/OS models (max leaf, leaf 1 and leaf 7 contents per sub-leaf, XCR0) and forall register garbage: %s [%s build, clang %s] selects the widest usable compiled-in back end, '
                              'the same one twice, never one the CPU/OS cannot run; parallel size matches' % (NAMES[w], cname, opt),
                              defs={'WHICH': w, 'HAVE128': h128, 'HAVE256': h256, 'PRE': pre}, ll=ll, cfg=cfg, timeout=300, replay='ir'))
    return dict(
        queries=qs, level='model_checking', pre=[],
        functions=['_skinny_has_vec128', '_skinny_has_vec256 (with <cpuid.h> __cpuid/__cpuid_count/__get_cpuid_max and xgetbv inline assembly as clang emits them)',
                   'skinny128_ctr_init', 'skinny64_ctr_init', 'mantis_ctr_init', 'skinny128_parallel_ecb_init', 'skinny64_parallel_ecb_init', 'mantis_parallel_ecb_init'],
        bounds={'CPU model': 'symbolic: max basic leaf >= 1, leaf 1 ECX/EDX, leaf 7 EBX for sub-leaf 0 and (one value) for every other sub-leaf, XCR0; ECX before a cpuid without sub-leaf input is arbitrary per call',
                'calls': 'two initialisations per run, optionally after an earlier probe of the other width (as any other object\'s initialisation would have made)', 'build configurations': 'SIMD compiled in (default), vec256 stubbed out, all SIMD stubbed out'},
        outside=['ARM/NEON probing (compile-time only in the code)', 'the vec init functions themselves (C15/C16)', 'gcc inline-assembly code generation (replayed on this host only for the ECX dependence, see DESIGN)'],
        assumptions=BASE_ASSUMPTIONS + ['usability predicate from the Intel SDM: SSE2 <=> CPUID.1:EDX[26]; AVX2 usable <=> max leaf >= 7 and CPUID.(7,0):EBX[5] and CPUID.1:ECX[27,28] and XCR0[2:1] = 11b',
                                        'clang-14 IR of the probes (inline asm mapped to the CPU model); vec vtables replaced by harness stubs whose init succeeds'],
    )
