from vlib.common import *
from vlib import lcplan

def plan(tier):
    from vlib.core import Q
    qs = lcplan.seq_queries(tier) + lcplan.par_seq_queries(tier)
    for size in (624, 768, 320, 192):
        qs.append(Q('calloc:skinny_calloc:%d' % size, 'c15calloc.c', 'skinny_calloc(%d) for every address the allocator could return, each of its requests allowed to fail: aligned result inside a live block, base pointer = that block, nothing else live; on failure NULL and nothing leaked' % size,
                    defs={'SIZE': size}, timeout=300))
    return dict(queries=qs, level='model_checking', pre=[pre_layout],
                functions=['all public CTR functions of the three ciphers through the dispatchers (generic back end) and the entry points of every vector back end (clang IR)',
                           'all public parallel-ECB functions (driver files), back end chosen symbolically', 'skinny_cleanse'],
                bounds={'histories': 'a fixed list of operation sequences of up to 10 calls over one or two objects per object kind and back end (quick: 8 CTR + 7 parallel sequences; thorough: 19 + 15), data concrete (control flow and addresses do not depend on data: C08), back end of parallel objects symbolic',
                        'checked per sequence': 'return values, no leak at the end, no double/foreign free, freed blocks zero, handle cleared by cleanup'},
                outside=['sequences not in the list; arbitrary-length histories are approached from the other side by the one-step obligations from arbitrary states in C05/C14/C16/C17'],
                assumptions=BASE_ASSUMPTIONS + ['calloc/free inside the library units renamed (macro / ll2c rename, no source change) to tracking wrappers around CBMC\'s allocator model',
                                                'vector back ends: skinny_calloc replaced by a contract model; its own arithmetic is decided in the calloc obligation of this check',
                                                'back end pinned by probe stubs (selection itself is C13)'])
