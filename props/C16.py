from vlib.core import Q
from vlib.common import *
from vlib import lcplan

def plan(tier):
    qs = lcplan.allocfail_queries(tier) + lcplan.inert_queries(tier) + lcplan.par_allocfail_queries(tier)
    from vlib.core import Q
    qs.append(Q('calloc:skinny_calloc:624', 'c15calloc.c', 'skinny_calloc with each of its allocation requests allowed to fail: NULL is propagated and nothing obtained on the way is leaked (the vector inits allocate through it)', defs={'SIZE': 624}, timeout=300))
    return dict(queries=qs, level='model_checking', pre=[pre_layout],
                functions=['{skinny128,skinny64,mantis}_ctr_init (dispatcher)', '*_ctr_def_init', '*_ctr_vec*_init (clang IR)', 'every CTR entry point on an inert handle', 'parallel-ECB objects: see C16 parallel queries'],
                bounds={'allocation': 'the single allocation each init makes fails', 'prior handle content': 'arbitrary bytes', 'stage 2': 'all calls from every inert handle state (vtable null with arbitrary ctx; vtable set with null ctx)'},
                outside=['back-end selection inside init (C13)'],
                assumptions=BASE_ASSUMPTIONS + ['allocation failure is injected by the tracking wrapper that replaces calloc inside the library units (macro renaming, no source change)',
                                                'vector back ends: skinny_calloc replaced by a model with its contract (zeroed block of size+31, aligned pointer inside, base stored)'])
