from vlib.core import Q, LL
from vlib.common import *

def plan(tier):
    qs = []
    apis = [('plain', 'API_PLAIN', 3), ('tweaked', 'API_TWEAKED', 2), ('ctr', 'API_CTR', 3), ('ctr_tweaked', 'API_CTR_TWEAKED', 2), ('parallel', 'API_PAR', 3)]
    for cb, blk, nm in ((8, 16, 'skinny128'), (4, 8, 'skinny64')):
        cipher_ll = LL('src/%s-cipher.c' % nm, flags=('-msse2',))
        for api, adef, maxz in apis:
            lens_ok = list(range(blk, maxz * blk + 1))
            lens_bad = list(range(0, blk)) + list(range(maxz * blk + 1, 3 * blk + 17))
            if tier == 'quick':
                if api in ('plain', 'tweaked'):
                    # the partial-load code depends on the remainder modulo the word size and on which tweakey word is partial
                    sel = [blk, 2 * blk] + ([3 * blk] if maxz == 3 else [])
                    for base_ in ([blk, 2 * blk] if maxz == 3 else [blk]):
                        sel += [base_ + 1, base_ + 3, base_ + 4, base_ + blk - 1]
                    lens_ok = sorted(set(l for l in sel if blk <= l <= maxz * blk))
                    lens_bad = [0, 1, blk - 1, maxz * blk + 1, 3 * blk + 16]
                else:
                    lens_ok = [blk, blk + 1, 2 * blk] + ([3 * blk - 1, 3 * blk] if maxz == 3 else [])
                    lens_bad = [0, blk - 1, maxz * blk + 1, 3 * blk + 16]
            def llunits():
                u = [cipher_ll]
                if api.startswith('ctr'): u.append(LL('src/%s-ctr.c' % nm, flags=('-msse2',), export=('%s_ctr_def' % nm,)))
                if api == 'parallel': u.append(LL('src/%s-parallel.c' % nm, flags=('-msse2',)))
                return u
            for L in lens_ok:
                primary = (L % blk == 0)
                d = {'CB': cb, 'OB_ACCEPT': 1, 'KEYLEN': L, adef: 1}
                desc = 'forall %d-byte keys: %s %s key setting accepts the length; rounds and schedule equal those of the key zero-padded to %d bytes' % (L, nm, api, -(-L // blk) * blk)
                if primary:
                    qs.append(Q('accept:%s:%s:%d' % (nm, api, L), 'c10.c', desc, defs=d, timeout=600, sanitize=True))
                else:
                    # in-between lengths.  CBMC 6.11 mis-simplifies "u.row[i/k] = w" followed by a read through another union
                    # member (DESIGN section 2): skinny128 reads the same member in the SKINNY_64BIT=0 configuration, so that
                    # configuration is decided natively; the shipped 64-bit path of skinny128 and every path of skinny64
                    # (which always reads tk.lrow[0]) are decided on clang's IR of the same files
                    if cb == 8:
                        qs.append(Q('accept:%s:%s:%d:rows' % (nm, api, L), 'c10.c', desc + ' [SKINNY_64BIT=0 path]', defs=d, cfg={'64BIT': 0}, timeout=600, sanitize=True))
                    d2 = dict(d); d2['LLROUTE'] = 1
                    qs.append(Q('accept:%s:%s:%d:ir' % (nm, api, L), 'c10.c', desc + ' [shipped 64-bit path, clang IR]', defs=d2, ll=llunits(), timeout=600, fsarray=2048, sanitize=True))
            for L in lens_bad:
                qs.append(Q('reject:%s:%s:%d' % (nm, api, L), 'c10.c',
                            'length %d is rejected by %s %s key setting with 0 and the object is byte-identical afterwards (arbitrary prior content)' % (L, nm, api),
                            defs={'CB': cb, 'OB_REJECT': 1, 'KEYLEN': L, adef: 1}, timeout=300))
            qs.append(Q('reject:%s:%s:symbolic' % (nm, api), 'c10.c',
                        'forall unsigned lengths outside the documented range (up to UINT_MAX): %s %s key setting returns 0, object byte-identical' % (nm, api),
                        defs={'CB': cb, 'OB_REJECT_SYM': 1, adef: 1}, timeout=900, unwind=100, mem_gb=8))
    return dict(
        queries=qs, level='model_checking', pre=[pre_engine_canaries, pre_model_selftest] + ([pre_ll_diff] if any(q.ll for q in qs) else []),
        functions=['skinny{64,128}_set_key', 'skinny{64,128}_set_tweaked_key', 'skinny{64,128}_set_key_inner', 'skinny{64,128}_set_tk1/2/3 (full and partial loads)',
                   'skinny{64,128}_ctr_set_key / _ctr_set_tweaked_key (dispatcher + generic back end)', 'skinny{64,128}_parallel_ecb_set_key', 'mantis_set_key (see C14 for Mantis argument classes)'],
        bounds={'key lengths': 'thorough: each length 0 .. 3*blk+16 individually for every entry point; quick: primary sizes, the remainder classes of the partial-load loops (+1, +3, +4, +blk-1 after each primary size) and the boundary rejects; one query per entry point with the length a symbolic unsigned outside the range',
                'key bytes': 'all symbolic', 'prior object content': 'arbitrary bytes', 'back ends': 'dispatcher + generic back end here; vec back ends delegate to the same functions, covered by C06 set_key step'},
        outside=['gcc code generation'],
        assumptions=BASE_ASSUMPTIONS + [MODEL_ASSUMPTION, 'in-between lengths are decided natively for SKINNY_64BIT=0 and through clang-14 -O1 IR (ll2c) for the shipped 64-bit path, because CBMC 6.11 mis-simplifies the union write in the 64-bit partial load'],
    )
