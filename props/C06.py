from vlib.core import Q, LL
from vlib.common import *
import importlib.util, os

VBE = [(1, 128), (1, 256), (2, 128), (3, 128)]
LANES = {(1, 128): 4, (1, 256): 8, (2, 128): 8, (3, 128): 8}
KF = 'rekey-midstream'

def plan(tier):
    from vlib.core import load_known_findings
    kf = load_known_findings()[0].get('C06', {})
    qs = []
    for (c, v) in VBE:
        name = be_name(c, v); blk = 16 if c == 1 else 8; L = LANES[(c, v)]; B = blk * L
        ll = ctr_vec_ll(c, v); base = {'CIPHER': c, 'VEC': v, 'NR': 1}
        # --- encrypt step from related states
        if tier == 'quick':
            pts = [(-1, 0, n) for n in ((0, 1, blk + 1, B + 1) if c != 3 else (0, 1, blk + 1))]
            pts += [(a, w, n) for (a, w) in ((0, 1), (L - 1, blk - 1), (L // 2, 0)) for n in ((1, blk + 1, B + blk + 1) if c != 3 else (1, blk + 1))]
        else:
            pts = [(-1, 0, n) for n in list(range(0, 2 * blk + 2)) + [B - 1, B, B + 1, 2 * B, 2 * B + 1, 2 * B + blk]]
            pts += [(a, w, n) for a in range(0, L) for w in (0, 1, blk // 2, blk - 1) for n in (0, 1, blk - 1, blk, blk + 1, B - 1, B, B + 1, 2 * B + 1)]
        seen = set()
        for (a, w, n) in pts:
            if (a, w, n) in seen: continue
            seen.add((a, w, n))
            qs.append(Q('enc:%s:a%d:w%d:n%d' % (name, a, w, n), 'c06.c',
                        'from ANY related pair of states (same arbitrary schedule; stream position = block %s of the vector batch, %d bytes of it used; arbitrary counter): encrypt(%d bytes) on the generic and the %s back end gives equal return values, equal output bytes, related states again'
                        % ('none buffered' if a < 0 else a, w, n, name), defs=dict(base, OB_ENC=1, A=a, W=w, N=n), ll=ll, timeout=1200, fsarray=1300, sanitize=True))
        # --- set_counter
        for ln in (range(0, blk + 2) if tier == 'thorough' else (0, 1, blk - 1, blk, blk + 1)):
            qs.append(Q('setctr:%s:len%d' % (name, ln), 'c06.c', 'from arbitrary unrelated states: set_counter(c, %d) returns the same on both back ends and (if accepted) leaves them related' % ln,
                        defs=dict(base, OB_SETCTR=1, LEN=ln), ll=ll, timeout=600, fsarray=1300, sanitize=True))
        qs.append(Q('setctr:%s:null' % name, 'c06.c', 'set_counter(NULL, n): same on both back ends', defs=dict(base, OB_SETCTR=1, LEN=blk, NULLCTR=1), ll=ll, timeout=600, fsarray=1300, sanitize=True))
        qs.append(Q('init:%s' % name, 'c06.c', 'after init both back ends are related (counter 0, nothing buffered)', defs=dict(base, OB_INIT=1), ll=ll, timeout=600, fsarray=1300, sanitize=True))
        # --- key / tweak change
        ops = [(1, 'set_key', [16] if c == 3 else ([blk, 3 * blk, blk - 1] if tier == 'quick' else [blk, 2 * blk, 3 * blk, blk - 1]))]
        if c != 3: ops += [(2, 'set_tweaked_key', [blk, 2 * blk + 1] if tier == 'quick' else [blk, 2 * blk, 2 * blk + 1]), (3, 'set_tweak', [1, blk + 1] if tier == 'quick' else [1, blk, blk + 1, 0])]
        else: ops += [(3, 'set_tweak', [8, 7])]
        for op, oname, lens in ops:
            for kl in lens:
                # with nothing buffered the relation is preserved
                qs.append(Q('rekey:%s:%s:%d:fresh' % (name, oname, kl), 'c06.c', '%s(len %d) when no keystream is buffered: same return value, same schedule, states related afterwards' % (oname, kl),
                            defs=dict(base, OB_REKEY=1, OP=op, KLEN=kl, A=-1, W=0), ll=ll, timeout=900, fsarray=1300, sanitize=True))
                # at the end of the vector batch inside a block both back ends continue with the next block
                qs.append(Q('rekey:%s:%s:%d:batchend' % (name, oname, kl), 'c06.c', '%s(len %d) inside the last block of the vector batch: both continue with the following block' % (oname, kl),
                            defs=dict(base, OB_REKEY=1, OP=op, KLEN=kl, A=L - 1, W=1), ll=ll, timeout=900, fsarray=1300, sanitize=True))
            # recorded finding: in the middle of the vector batch the two back ends resume at different counters
            if tier == 'thorough' or op == 1:
                qs.append(Q('finding:%s:%s:midbatch' % (name, oname), 'c06.c', 'KNOWN FINDING witness: %s in the middle of the vector batch - the generic back end continues with the next block, the vector back end with the next batch' % oname,
                            defs=dict(base, OB_REKEY=1, OP=op, KLEN=(16 if c == 3 and op == 1 else (8 if c == 3 else blk)), A=0, W=1), ll=ll, timeout=900, fsarray=1300, expect='fail', kf=KF, witness=False))
    # parallel ECB: every back end is proved equal to block-by-block single-block processing (C07's driver and batch obligations),
    # hence to every other back end; those obligations are part of this check as well
    spec = importlib.util.spec_from_file_location('C07', os.path.join(os.path.dirname(os.path.abspath(__file__)), 'C07.py')); m7 = importlib.util.module_from_spec(spec); spec.loader.exec_module(m7)
    for q in m7.plan(tier)['queries']:
        if q.name.startswith('driver:') or (q.name.startswith('batch:') and 'mantis' not in q.name):
            q.name = 'parallel-' + q.name; q.group = 'parallel'; qs.append(q)
    return dict(queries=qs, level='model_checking', pre=[pre_engine_canaries, pre_layout, pre_ll_diff],
                functions=['generic CTR back ends + dispatchers (native)', 'skinny128_ctr_vec128_*, skinny128_ctr_vec256_*, skinny64_ctr_vec128_*, mantis_ctr_vec128_* (clang IR)', 'parallel ECB: by C07 every back end equals block-by-block ECB, hence each other'],
                bounds={'method': 'one-step bisimulation from arbitrary related states per operation; histories by induction (meta-step)', 'encrypt grid': 'positions (block index inside the vector batch, bytes used) x sizes as listed per query; 1-round arbitrary schedule (block functions at full depth: C05 deep, C07 batch)',
                        'key/tweak change': 'from states with nothing buffered and from the end of a vector batch; the mid-batch case is the recorded finding (known-findings.txt key=rekey-midstream), excluded only by that identification',
                        'invalid calls': 'equal return values follow from C14 (0 on every back end)'},
                outside=['sizes above 2B+blk'],
                assumptions=BASE_ASSUMPTIONS + ['generic back end: real C natively; vector back ends: clang-14 -O1 IR via ll2c; relation R as stated in harness/c06.c'])
