from vlib.core import Q, LL
from vlib.common import *

def grids(c, v, tier):
    blk = 16 if c == 1 else 8
    lanes = {(1, 0): 1, (1, 128): 4, (1, 256): 8, (2, 0): 1, (2, 128): 8, (3, 0): 1, (3, 128): 8}[(c, v)]
    B = blk * lanes
    if v == 0:
        if tier == 'thorough':
            os_, ns = range(0, B + 1), range(0, 3 * blk + 1)
            pts = [(o, n) for o in os_ for n in ns]
        else:
            pts = [(o, n) for o in (0, 1, blk // 2, blk - 1, blk) for n in (0, 1, blk - 1, blk, blk + 1, 2 * blk, 2 * blk + 1)]
    else:
        if tier == 'thorough':
            os_ = sorted(set([0, 1, blk - 1, blk, blk + 1, 2 * blk, B // 2, B - blk - 1, B - blk, B - 1, B]))
            ns_ = sorted(set(list(range(0, 2 * blk + 2)) + [B - 1, B, B + 1, 2 * B - 1, 2 * B, 2 * B + 1, 2 * B + blk]))
            if c == 3: ns_ = [n for n in ns_ if n <= B + 1]
            pts = [(o, n) for o in os_ for n in ns_]
        else:
            pts = []
            if c == 3:      # Mantis vec128: each point costs 20 s - 5 min even at 0 rounds (measured), so the quick grid is small
                cand = [(B, 1), (B, blk + 1), (B - 1, 2), (1, blk), (blk, B - blk), (B - blk - 1, blk + 2), (0, 0), (B, B + 1)]
            else:
                cand = [(o, n) for o in (0, 1, B - blk - 1, B) for n in (0, 1, blk + 1, B - o, B - o + 1, B + 1, 2 * B + 1)]
            for (o, n) in cand:
                if n >= 0 and (o, n) not in pts: pts.append((o, n))
    return blk, lanes, B, pts

def plan(tier):
    qs = []
    fullr = {1: 56, 2: 40, 3: 8}
    for (c, v) in CTR_BACKENDS:
        name = be_name(c, v)
        blk, lanes, B, pts = grids(c, v, tier)
        ll = ctr_vec_ll(c, v) if v else []
        base = {'CIPHER': c, 'VEC': v}
        fs = 1300 if v else None
        lowr = 0 if (c == 3 and v) else 1      # the glue never looks at the round count; Mantis vec128 is costly even so
        for (o, n) in pts:
            for inplace in ((0, 1) if ((tier == 'thorough' and (v == 0 or n in (1, blk + 1, B + 1))) or (o, n) in pts[:3]) else (0,)):
                qs.append(Q('step:%s:o%d:n%d%s' % (name, o, n, ':inplace' if inplace else ''), 'c05.c',
                            'from ANY state Inv(C, o=%d) of the %s back end (arbitrary %d-round key schedule, arbitrary counter C incl. all carries and wrap-around, arbitrary data): encrypt(%d bytes%s) returns 1, '
                            'output = input xor (rest of buffered batch, then E(C), E(C+1), ...), and Inv holds again for the advanced counter/offset' % (o, name, lowr, n, ', out == in' if inplace else ''),
                            defs=dict(base, OB_STEP=1, O=o, N=n, NR=lowr, INPLACE=inplace), ll=ll, timeout=900, fsarray=fs, sanitize=True))
        # one request of more than 256 blocks (loop counters of the back end must not be narrower than the request); thorough tier
        if tier == 'thorough' and not (c == 3 and v):
            nbig = 256 * blk + blk + 1
            qs.append(Q('big:%s:o%d:n%d' % (name, B, nbig), 'c05.c', 'encrypt(%d bytes in one call) on the %s back end from Inv(C, nothing buffered), 1-round arbitrary schedule' % (nbig, name),
                        defs=dict(base, OB_STEP=1, O=B, N=nbig, NR=1, INPLACE=0), ll=ll, timeout=7200, fsarray=9000, unwind=9000, sanitize=True, mem_est=6))
        # in-place pieces longer than half a batch (the xor helpers may take wide or overlapping strides there)
        if v:
            for (o, n) in ((B, B // 2 + blk + 4), (1, B - blk - 3), (blk + 5, B // 2 + 9)):
                qs.append(Q('step:%s:o%d:n%d:inplace' % (name, o, n), 'c05.c',
                            'from ANY state Inv(C, o=%d) of the %s back end: encrypt(%d bytes, out == in) - a single piece of more than half a batch processed in place' % (o, name, n),
                            defs=dict(base, OB_STEP=1, O=o, N=n, NR=lowr, INPLACE=1), ll=ll, timeout=900, fsarray=fs, sanitize=True))
        # the same step at full cipher depth on a few points: ties the block function of the back end to the scalar cipher
        deep = [(B, B), (B - 1, 2)] if tier == 'quick' else [(B, B), (B - 1, 2), (B, 1), (0, B + 1), (B, 2 * B + 1)]
        if c == 3 and v and tier == 'quick': deep = []      # Mantis vec128 at full depth: thorough tier only (block function also decided by C07 batch)
        for (o, n) in deep:
            qs.append(Q('deep:%s:o%d:n%d' % (name, o, n), 'c05.c',
                        'the same step at full depth (%d rounds, arbitrary schedule): the back end\'s block function equals the scalar cipher on every lane' % fullr[c],
                        defs=dict(base, OB_STEP=1, O=o, N=n, NR=fullr[c], INPLACE=0), ll=ll, timeout=1800, fsarray=fs, sanitize=True))
        for ln in (range(0, blk + 1) if (tier == 'thorough' or v == 0) else (0, 1, blk - 1, blk)):
            qs.append(Q('setctr:%s:len%d' % (name, ln), 'c05.c', 'from any prior context content: set_counter(c, %d) on the %s back end returns 1, lanes hold c, c+1, ... for c left-padded with zeros, buffer discarded' % (ln, name),
                        defs=dict(base, OB_SETCTR=1, LEN=ln, NR=1), ll=ll, timeout=600, fsarray=fs, sanitize=True))
        qs.append(Q('setctr:%s:null' % name, 'c05.c', 'set_counter(NULL, n) on the %s back end: all-zero counter' % name,
                    defs=dict(base, OB_SETCTR=1, LEN=blk, NULLCTR=1, NR=1), ll=ll, timeout=600, fsarray=fs, sanitize=True))
        for shift in ((0,) if (v == 0 or tier == 'quick') else (0, 16)):
            qs.append(Q('init:%s%s' % (name, ':shift%d' % shift if shift else ''), 'c05.c', 'after init on the %s back end the invariant holds with C = 0 and nothing buffered (first block E(0), then E(1), ...)' % name,
                        defs=dict(base, OB_INIT=1, NR=1, CALLOC_SHIFT=shift), ll=ll, timeout=600, fsarray=fs, sanitize=True))
    qs += ctr_rekey_queries(tier)
    return dict(
        queries=qs, level='model_checking', pre=[pre_engine_canaries, pre_layout, pre_ll_diff],
        functions=['{skinny128,skinny64,mantis}_ctr_encrypt / _set_counter dispatchers', '*_ctr_def_{init,set_counter,encrypt}', 'skinny128_ctr_vec128_*, skinny128_ctr_vec256_*, skinny64_ctr_vec128_*, mantis_ctr_vec128_* (clang IR)',
                   'skinny*_inc_counter, *_ctr_increment, skinny*_xor, skinny_xor, *_ecb_encrypt_four/eight'],
        bounds={'method': 'one inductive step from an arbitrary invariant state per (offset, size) point; split independence for every finite call sequence follows by induction over calls (meta-step)',
                'grid': 'quick: generic o in {0,1,blk/2,blk-1,blk} x n in {0,1,blk-1,blk,blk+1,2blk,2blk+1}; vec o in {0,1,B-blk-1,B} x n in {0,1,blk+1,B-o,B-o+1,B+1,2B+1} plus three in-place pieces longer than half a batch; thorough: generic all o x all n <= 3 blk, vec all o x n in 0..2blk+1 and around B, 2B',
                'rounds': 'grid at 1 round with an arbitrary schedule (the glue code never looks at the round count); selected points at full depth (56/40/8 rounds)', 'counter': 'fully symbolic (every carry chain, wrap from 2^n-1)',
                'sizes above 2B+blk': 'outside: they repeat the full-batch loop body'},
        outside=['key/tweak change in mid-stream (C06 states it)', 'dispatch from init (C13)'],
        assumptions=BASE_ASSUMPTIONS + ['oracle: the real scalar block cipher under the same schedule (tied to the specification by C01/C02); counter arithmetic written independently',
                                        'vec back ends: clang-14 -O1 IR translated by ll2c (validated differentially every run); skinny_calloc replaced by a contract model in the init obligation'],
    )
