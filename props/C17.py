from vlib.common import *
from vlib import lcplan

def plan(tier):
    qs = lcplan.wipe_queries(tier) + lcplan.par_wipe_queries(tier)
    return dict(queries=qs, level='model_checking', pre=[pre_layout],
                functions=['*_ctr_def_cleanup, *_ctr_vec128/256_cleanup (clang IR), *_ctr_cleanup dispatchers', '*_parallel_ecb_cleanup', 'skinny_cleanse'],
                bounds={'prior content': 'every byte of the context arbitrary (over-approximates every history ending in cleanup); vec contexts keep the base pointer init stored',
                        'block extent': 'the whole allocated block incl. up to 31 bytes of alignment slack is scanned at free()', 'alignment offsets': 'quick: shift 0; thorough: 0 and 16'},
                outside=['compiler removal of the cleansing loop in gcc machine code (volatile stores; source-level claim)'],
                assumptions=BASE_ASSUMPTIONS + ['free() replaced by a wrapper that scans the block before releasing it', 'skinny_calloc contract model for vector back ends'])
