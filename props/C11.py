from vlib.core import Q, LL
from vlib.common import *

def plan(tier):
    qs = []
    for cb, blk, nm in ((8, 16, 'skinny128'), (4, 8, 'skinny64')):
        ll = [LL('src/%s-cipher.c' % nm, flags=('-msse2',))]
        ll0 = [LL('src/%s-cipher.c' % nm, flags=('-msse2',), opt='-O0')]
        for tw, maxz in ((0, 3), (1, 2)):
            lens = sorted(set([blk, blk + 1, blk + 3, blk + 4, blk + blk // 2, 2 * blk - 1, 2 * blk] + ([2 * blk + 1, 2 * blk + 4, 3 * blk - 1, 3 * blk] if maxz == 3 else []))) if tier == 'quick' else list(range(blk, maxz * blk + 1))
            for kl in lens:
                d = {'CB': cb, 'OB_KEY': 1, 'KLEN': kl, 'TWEAKED': tw}
                desc = '%s_set%s_key(%d bytes) + ecb_encrypt executed on two objects with independent arbitrary prior contents (and independent uninitialised locals): equal return value, schedule, tweak and ciphertext' % (nm, '_tweaked' if tw else '', kl)
                if kl % blk == 0:
                    qs.append(Q('key:%s:%s:%d' % (nm, 'tweaked' if tw else 'plain', kl), 'c11.c', desc, defs=d, timeout=900))
                else:
                    if cb == 8: qs.append(Q('key:%s:%s:%d:rows' % (nm, 'tweaked' if tw else 'plain', kl), 'c11.c', desc + ' [SKINNY_64BIT=0 path]', defs=d, cfg={'64BIT': 0}, timeout=900))
                    qs.append(Q('key:%s:%s:%d:ir' % (nm, 'tweaked' if tw else 'plain', kl), 'c11.c', desc + ' [shipped path, clang -O1 IR, undef = fresh nondeterministic value]', defs=dict(d, LLROUTE=1), ll=ll, timeout=900, fsarray=2048))
                    if tier == 'thorough' or kl in (blk + 1, blk + 4):
                        qs.append(Q('key:%s:%s:%d:ir-O0' % (nm, 'tweaked' if tw else 'plain', kl), 'c11.c', desc + ' [clang -O0 IR: locals are memory]', defs=dict(d, LLROUTE=1), ll=ll0, timeout=1800, fsarray=2048, objbits=12))
        for kl in (blk, 2 * blk):
            for tl in ((1, blk) if tier == 'quick' else range(1, blk + 1)):
                qs.append(Q('tweak:%s:k%d:t%d' % (nm, kl, tl), 'c11.c', '%s_set_tweaked_key(%d) ; set_tweak(%d bytes) ; encrypt on two independent objects: equal schedule, tweak, ciphertext' % (nm, kl, tl),
                            defs={'CB': cb, 'OB_TWEAK': 1, 'KLEN': kl, 'TLEN': tl}, timeout=900))
            qs.append(Q('tweak:%s:k%d:null' % (nm, kl), 'c11.c', 'the same with set_tweak(NULL, n)', defs={'CB': cb, 'OB_TWEAK': 1, 'KLEN': kl, 'TLEN': blk, 'NULLT': 1}, timeout=900))
    for r in ((5, 8) if tier == 'quick' else (5, 6, 7, 8)):
        for mode in (0, 1):
            qs.append(Q('mantis:r%d:m%d' % (r, mode), 'c11.c', 'mantis_set_key (no set_tweak) ; mantis_ecb_crypt on two schedules with independent arbitrary prior contents: every field incl. the default tweak, and the output, are equal',
                        defs={'OB_MANTIS': 1, 'R': r, 'MODE': mode, 'CB': 4}, timeout=900))
    for (c, v) in CTR_BACKENDS:
        name = be_name(c, v); blk = 16 if c == 1 else 8
        lanes = {(1, 0): 1, (1, 128): 4, (1, 256): 8, (2, 0): 1, (2, 128): 8, (3, 0): 1, (3, 128): 8}[(c, v)]; B = blk * lanes
        ll = ctr_vec_ll(c, v) if v else []
        modes = [(0, 0), (1, blk), (1, 3), (2, blk), (2, 1), (2, 0)] if tier == 'quick' else [(0, 0)] + [(1, l) for l in range(0, blk + 1)] + [(2, l) for l in range(0, blk + 1)]
        for (cm, ln) in modes:
            n = blk + 3 if (v == 0 or c == 3) else B + 1
            qs.append(Q('ctr:%s:cnt%d:len%d' % (name, cm, ln), 'c11.c',
                        'init ; set_key ; %s ; encrypt(%d bytes) ; cleanup on the %s back end, twice with independent stack/heap contents: equal return values and output bytes' % (['no counter set', 'set_counter(c, %d)' % ln, 'set_counter(NULL, %d)' % ln][cm], n, name),
                        defs={'OB_CTR': 1, 'CIPHER': c, 'VEC': v, 'KLEN': (16 if c == 3 else blk), 'CNTMODE': cm, 'LEN': ln, 'N': n, 'NR': 1}, ll=ll, timeout=1800, fsarray=(1300 if v else None)))
    return dict(queries=qs, level='model_checking', pre=[pre_engine_canaries, pre_layout, pre_ll_diff],
                functions=['skinny{64,128}_set_key / set_tweaked_key / set_tweak / ecb_encrypt', 'mantis_set_key / mantis_ecb_crypt', 'CTR init / set_key / set_counter / encrypt / cleanup on every back end'],
                bounds={'templates': 'key ; encrypt - tweaked key ; tweak ; encrypt - Mantis key ; crypt - CTR init ; key ; [counter | NULL counter] ; encrypt ; cleanup', 'key lengths': 'quick: primary sizes and the remainder classes of the partial loads; thorough: every length',
                        'uninitialised memory': 'locals of the native code are unconstrained per call instance; for the shipped 64-bit partial-key path the clang IR is used (-O1 with undef as a fresh nondeterministic value, and -O0 where the locals are still memory)',
                        'optimisation levels': 'a result that is single-valued here for all prior contents is independent of what a conforming compiler does with uninitialised reads (there are none); see C12 for the compiler slice'},
                outside=['padding bytes and schedule entries beyond the round count (not results)'],
                assumptions=BASE_ASSUMPTIONS)
