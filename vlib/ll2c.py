#!/usr/bin/env python3
"""ll2c - translate the subset of LLVM-14 textual IR that clang emits for rweather/skinny-c
(C vector back ends, scalar files at any -O level, Arduino C++ classes) into plain C that
CBMC's C front end accepts.

 * every pointer is a byte pointer (uint8_t*); aggregate layout is computed from the
   x86-64 data layout; vectors become small structs with element-wise code
 * phi nodes become parallel copies on the incoming edges
 * undef/poison operands become fresh nondeterministic values (never a constant)
 * every global symbol gets a prefix (default ll_) so translated code links only against
   translated code; C library names (memcpy, calloc, free, ...) keep their meaning
 * CT_BR / CT_ADDR / CT_LEN hooks are emitted at every conditional branch, switch, load,
   store and memory intrinsic; they expand to nothing unless CT_MODE is defined
 * an instruction or intrinsic that is not known raises Unsupported: the check that needs
   the translation then ends inconclusive, never successful

usage: ll2c.py in.ll out.c info.json [--prefix P] [--tag T] [--ct] [--export a,b] [--rename a=b,c=d]
"""
import re, sys, json


class Unsupported(Exception):
    pass


LIBC = {'memcpy', 'memset', 'memmove', 'calloc', 'malloc', 'free', 'abort', 'strlen', 'memcmp', 'realloc',
        'printf', 'puts', 'putchar', 'exit'}
OPT = {'prefix': 'll_', 'ct': False, 'export': set(), 'rename': {}}


# ---------------------------------------------------------------- types
class T:
    def __init__(s, k, **kw): s.k = k; s.__dict__.update(kw)
    def __repr__(s): return 'T(%s)' % s.__dict__


NAMED = {}
VECS = {}
FUNCS = {}
DECLS = []
SITE = [0]

ATTR = r'(noundef|nonnull|nocapture|readonly|writeonly|readnone|signext|zeroext|inreg|align \d+|' \
       r'dereferenceable(?:_or_null)?\(\d+\)|returned|noalias|nofree|immarg|byval\([^)]*\)|sret\([^)]*\)|swiftself|inrange)'


def parse_type(s, i=0):
    """returns (type, next_index)"""
    def skip(i):
        while i < len(s) and s[i] == ' ': i += 1
        return i
    i = skip(i)
    m = re.compile(r'i(\d+)').match(s, i)
    if s.startswith('void', i): t = T('void'); i += 4
    elif m: t = T('int', bits=int(m.group(1))); i = m.end()
    elif s.startswith('float', i): t = T('float'); i += 5
    elif s.startswith('double', i): t = T('double'); i += 6
    elif s.startswith('...', i): t = T('vararg'); i += 3
    elif s[i] == '%':
        m = re.compile(r'%("[^"]+"|[\w.$-]+)').match(s, i)
        t = T('named', name=m.group(1)); i = m.end()
    elif s[i] == '[':
        m = re.compile(r'\[\s*(\d+)\s+x\s+').match(s, i)
        e, j = parse_type(s, m.end()); j = skip(j)
        if s[j] != ']': raise Unsupported('type syntax ' + s[i:i + 40])
        t = T('array', n=int(m.group(1)), elem=e); i = j + 1
    elif s[i] == '<' and s[i + 1] == '{':
        fs, j = parse_fields(s, i + 2, '}')
        t = T('struct', fields=fs, packed=True); i = j + 2
    elif s[i] == '<':
        m = re.compile(r'<\s*(\d+)\s+x\s+').match(s, i)
        e, j = parse_type(s, m.end()); j = skip(j)
        t = T('vec', n=int(m.group(1)), elem=e); i = j + 1
    elif s[i] == '{':
        fs, j = parse_fields(s, i + 1, '}')
        t = T('struct', fields=fs, packed=False); i = j + 1
    elif s.startswith('opaque', i): t = T('opaque'); i += 6
    else: raise Unsupported('type? ' + s[i:i + 40])
    while True:
        i = skip(i)
        if i < len(s) and s[i] == '*': t = T('ptr', to=t); i += 1
        elif i < len(s) and s[i] == '(':
            ps, j = parse_fields(s, i + 1, ')')
            t = T('func', ret=t, params=ps); i = j + 1
        else: break
    return t, i


def parse_fields(s, i, close):
    fs = []
    while True:
        while s[i] == ' ': i += 1
        if s[i] == close: return fs, i
        t, i = parse_type(s, i); fs.append(t)
        while s[i] == ' ': i += 1
        if s[i] == ',': i += 1


def resolve(t):
    while t.k == 'named':
        if t.name not in NAMED: raise Unsupported('unknown named type ' + t.name)
        t = NAMED[t.name]
    return t


def size_align(t):
    t = resolve(t)
    if t.k == 'int':
        b = (t.bits + 7) // 8; sz = 1
        while sz < b: sz *= 2
        return sz, (min(sz, 8) if sz <= 8 else 16)
    if t.k == 'ptr': return 8, 8
    if t.k == 'float': return 4, 4
    if t.k == 'double': return 8, 8
    if t.k == 'array':
        s, a = size_align(t.elem); return s * t.n, a
    if t.k == 'vec':
        s, a = size_align(t.elem); tot = s * t.n; al = 1
        while al < tot: al *= 2
        return al, al
    if t.k == 'struct':
        off, al = 0, 1
        for f in t.fields:
            s, a = size_align(f)
            if t.packed: a = 1
            off = (off + a - 1) // a * a + s; al = max(al, a)
        return (off + al - 1) // al * al, al
    raise Unsupported('size of ' + repr(t))


def field_offset(t, idx):
    t = resolve(t); off = 0
    for k, f in enumerate(t.fields):
        s, a = size_align(f)
        if t.packed: a = 1
        off = (off + a - 1) // a * a
        if k == idx: return off
        off += s
    raise Unsupported('field index')


def ctype(t):
    t = resolve(t)
    if t.k == 'int':
        if t.bits == 1: return 'uint8_t'
        for w in (8, 16, 32, 64):
            if t.bits <= w: return 'uint%d_t' % w
        if t.bits <= 128: return 'unsigned __int128'
    if t.k in ('ptr', 'func'): return 'uint8_t*'
    if t.k == 'vec': return 'V%d_%s' % (t.n, ctype(t.elem).replace('_t', ''))
    if t.k == 'void': return 'void'
    raise Unsupported('ctype of ' + repr(t))


def vec_decl(t):
    n = ctype(t); VECS[n] = 'typedef struct { %s e[%d]; } %s;' % (ctype(t.elem), t.n, n); return n


def mask(t):
    t = resolve(t)
    if t.k == 'int' and t.bits not in (8, 16, 32, 64, 128): return ' & ((1ULL<<%d)-1)' % t.bits
    return ''


# ---------------------------------------------------------------- names / operands
class Ctx:
    def __init__(s): s.tmp = 0; s.decl = {}; s.externs = {}
    def fresh(s): s.tmp += 1; return '_t%d' % s.tmp


def cname(n):
    return re.sub(r'[^A-Za-z0-9_]', '_', n.strip('"'))


def gname(n):
    """C name of a global symbol"""
    n = n.strip('"')
    if n in OPT['rename']: return OPT['rename'][n]
    if n in LIBC: return n
    return OPT['prefix'] + cname(n)


def nondet_of(rt):
    rt = resolve(rt)
    if rt.k == 'int':
        for w in (8, 16, 32, 64):
            if rt.bits <= w: return '((%s)(nondet_u%d()%s))' % (ctype(rt), w, mask(rt))
        return '(((unsigned __int128)nondet_u64() << 64) | nondet_u64())'
    if rt.k == 'ptr': return '((uint8_t*)(uintptr_t)nondet_u64())'
    if rt.k == 'vec':
        vec_decl(rt); return '(%s){{%s}}' % (ctype(rt), ','.join(nondet_of(rt.elem) for _ in range(rt.n)))
    raise Unsupported('undef of ' + repr(rt))


def split_top(s, sep=','):
    out, d, cur, q = [], 0, '', False
    for ch in s:
        if ch == '"': q = not q
        if not q:
            if ch in '([{<': d += 1
            elif ch in ')]}>': d -= 1
            elif ch == sep and d == 0: out.append(cur.strip()); cur = ''; continue
        cur += ch
    if cur.strip(): out.append(cur.strip())
    return out


def operand(t, s, cx):
    """C expression for operand text s of type t"""
    s = s.strip(); rt = resolve(t)
    if s.startswith('%'): return 'v_' + cname(s[1:])
    if s.startswith('@'):
        n = s[1:]
        return '((uint8_t*)%s)' % gname(n) if n.strip('"') in FUNCS else '((uint8_t*)&%s)' % gname(n)
    if s in ('undef', 'poison'): return nondet_of(rt)
    if s == 'zeroinitializer':
        if rt.k == 'vec':
            vec_decl(rt); return '(%s){{0}}' % ctype(rt)
        return '0'
    if s == 'null': return '((uint8_t*)0)'
    if s == 'true': return '1'
    if s == 'false': return '0'
    if re.fullmatch(r'-?\d+', s):
        v = int(s)
        if rt.k == 'int': v &= (1 << rt.bits) - 1
        if rt.k == 'int' and rt.bits > 64:
            return '((((unsigned __int128)%dULL) << 64) | %dULL)' % (v >> 64, v & ((1 << 64) - 1))
        return '((%s)%dULL)' % (ctype(rt), v)
    if s.startswith('<') and rt.k == 'vec':
        vec_decl(rt); els = split_top(s[1:-1])
        return '(%s){{%s}}' % (ctype(rt), ','.join(typed_operand(e, cx)[1] for e in els))
    m = re.match(r'(getelementptr|bitcast|ptrtoint|inttoptr)\s*(inbounds\s*)?\((.*)\)$', s)
    if m:
        op, body = m.group(1), m.group(3)
        if op == 'getelementptr':
            parts = split_top(body); bt, _ = parse_type(parts[0])
            pt, pe = typed_operand(parts[1], cx)
            return gep_expr(bt, pe, [typed_operand(p, cx) for p in parts[2:]])
        src = body.rsplit(' to ', 1)[0]
        st, se = typed_operand(src, cx)
        if op == 'ptrtoint': return '((%s)(uintptr_t)%s)' % (ctype(rt), se)
        if op == 'inttoptr': return '((uint8_t*)(uintptr_t)%s)' % se
        return se
    raise Unsupported('operand %r : %r' % (t, s))


def strip_attrs(rest):
    while True:
        m = re.match(r'^' + ATTR + r'\s+', rest)
        if not m: return rest
        rest = rest[m.end():]


def typed_operand(s, cx):
    s = strip_attrs(s.strip())
    t, i = parse_type(s)
    rest = strip_attrs(s[i:].strip())
    return t, operand(t, rest, cx)


def const_index(ie):
    m = re.fullmatch(r'\(\(\w+\)(\d+)ULL\)', ie)
    return int(m.group(1)) if m else None


def gep_expr(bt, pe, idxs):
    e = '%s + (int64_t)%s * %dLL' % (pe, sx(idxs[0]), size_align(bt)[0])
    t = resolve(bt)
    for (it, ie) in idxs[1:]:
        t = resolve(t)
        if t.k == 'struct':
            k = const_index(ie)
            if k is None: raise Unsupported('non-constant struct index')
            e += ' + %d' % field_offset(t, k); t = t.fields[k]
        elif t.k in ('array', 'vec'):
            e += ' + (int64_t)%s * %dLL' % (sx((it, ie)), size_align(t.elem)[0]); t = t.elem
        else: raise Unsupported('gep into ' + repr(t))
    return '(' + e + ')'


def sx(te):
    t, e = te; t = resolve(t)
    return '((int%d_t)%s)' % (max(8, t.bits), e) if t.k == 'int' and t.bits in (8, 16, 32, 64) else e


def sgn(t, e):
    t = resolve(t)
    if t.bits in (8, 16, 32, 64): return '((int%d_t)%s)' % (t.bits, e)
    if t.bits == 1: return '((int8_t)-(int8_t)(%s & 1))' % e
    raise Unsupported('signed i%d' % t.bits)


# ---------------------------------------------------------------- instructions
BIN = {'add': '+', 'sub': '-', 'mul': '*', 'and': '&', 'or': '|', 'xor': '^', 'shl': '<<', 'lshr': '>>', 'udiv': '/', 'urem': '%'}
ICMP = {'eq': '==', 'ne': '!=', 'ugt': '>', 'uge': '>=', 'ult': '<', 'ule': '<='}
SICMP = {'sgt': '>', 'sge': '>=', 'slt': '<', 'sle': '<='}


def site(): SITE[0] += 1; return SITE[0]


def elementwise(rt, fn):
    vec_decl(rt); return '(%s){{%s}}' % (ctype(rt), ','.join(fn(i) for i in range(rt.n)))


def binop(op, t, a, b):
    rt = resolve(t)
    def one(ct, x, y, et):
        w = resolve(et).bits
        wide = 'unsigned __int128' if w > 64 else ('uint64_t' if w > 32 else 'uint32_t')
        if op in ('shl', 'lshr'):
            # LLVM: shift by >= width is poison; C: undefined.  Guarded so CBMC's shift check stays meaningful.
            return '((%s)(((%s)(%s)) %s (%s))%s)' % (ct, wide, x, BIN[op], y, mask(et))
        if op in BIN: return '((%s)(((%s)(%s)) %s ((%s)(%s)))%s)' % (ct, wide, x, BIN[op], wide, y, mask(et))
        if op == 'ashr': return '((%s)(%s >> %s))' % (ct, sgn(et, x), y)
        if op == 'sdiv': return '((%s)(%s / %s))' % (ct, sgn(et, x), sgn(et, y))
        if op == 'srem': return '((%s)(%s %% %s))' % (ct, sgn(et, x), sgn(et, y))
        raise Unsupported(op)
    if rt.k == 'vec':
        ct = ctype(rt.elem)
        return elementwise(rt, lambda i: one(ct, '(%s).e[%d]' % (a, i), '(%s).e[%d]' % (b, i), rt.elem))
    return one(ctype(rt), a, b, rt)


def translate_inst(line, cx, out, phis_of, cur):
    line = re.sub(r',?\s*![\w.]+ !\d+', '', line).strip()
    line = re.sub(r',\s*align \d+$', '', line)
    m = re.match(r'(%[\w."$-]+)\s*=\s*(.*)$', line)
    dst, rhs = (m.group(1), m.group(2)) if m else (None, line)

    def setv(t, e):
        rt = resolve(t)
        if rt.k == 'vec': vec_decl(rt)
        cx.decl['v_' + cname(dst[1:])] = ctype(rt)
        out.append('  v_%s = %s;' % (cname(dst[1:]), e))

    opm = re.match(r'(tail |musttail |notail )?(\w+)', rhs); opc = opm.group(2); body = rhs[opm.end():].strip()
    if opc in BIN or opc in ('ashr', 'sdiv', 'srem'):
        body = re.sub(r'^((nuw|nsw|exact)\s+)+', '', body)
        t, i = parse_type(body); a, b = split_top(body[i:])
        return setv(t, binop(opc, t, operand(t, a, cx), operand(t, b, cx)))
    if opc == 'freeze':
        t, e = typed_operand(body, cx); return setv(t, e)
    if opc in ('zext', 'trunc', 'sext', 'bitcast', 'ptrtoint', 'inttoptr'):
        src, dstt = body.rsplit(' to ', 1); dt, _ = parse_type(dstt); st, se = typed_operand(src, cx)
        rs, rd = resolve(st), resolve(dt)
        if rd.k == 'vec' and opc in ('zext', 'trunc', 'sext'):
            return setv(dt, elementwise(rd, lambda i: '((%s)%s%s)' % (ctype(rd.elem), ('(%s).e[%d]' % (se, i)) if opc != 'sext' else sgn(rs.elem, '(%s).e[%d]' % (se, i)), mask(rd.elem))))
        if opc == 'sext': return setv(dt, '((%s)%s%s)' % (ctype(rd), sgn(rs, se), mask(rd)))
        if opc == 'bitcast' and (rd.k == 'vec' or rs.k == 'vec'):
            if rd.k == 'vec': vec_decl(rd)
            if rs.k == 'vec': vec_decl(rs)
            tv = cx.fresh(); cx.decl[tv] = ctype(rs); out.append('  %s = %s;' % (tv, se))
            return setv(dt, '*(%s*)&%s' % (ctype(rd), tv))
        if opc == 'ptrtoint': return setv(dt, '((%s)(uintptr_t)%s)' % (ctype(rd), se))
        if opc == 'inttoptr': return setv(dt, '((uint8_t*)(uintptr_t)%s)' % se)
        if opc == 'bitcast': return setv(dt, se)
        return setv(dt, '((%s)%s%s)' % (ctype(rd), se, mask(rd)))
    if opc == 'icmp':
        pm = re.match(r'(\w+)\s+(.*)$', body); pred, rest = pm.group(1), pm.group(2)
        t, i = parse_type(rest); a, b = split_top(rest[i:]); ea, eb = operand(t, a, cx), operand(t, b, cx)
        rt = resolve(t)
        def cmp1(x, y, et):
            if pred in ICMP: return '((uint8_t)(%s %s %s))' % (x, ICMP[pred], y)
            return '((uint8_t)(%s %s %s))' % (sgn(et, x), SICMP[pred], sgn(et, y))
        if rt.k == 'vec':
            bt = T('vec', n=rt.n, elem=T('int', bits=1))
            return setv(bt, elementwise(bt, lambda i: cmp1('(%s).e[%d]' % (ea, i), '(%s).e[%d]' % (eb, i), rt.elem)))
        return setv(T('int', bits=1), cmp1(ea, eb, rt))
    if opc == 'select':
        c, a, b = split_top(body); ct_, ce = typed_operand(c, cx); at, ae = typed_operand(a, cx); bt_, be = typed_operand(b, cx)
        rt = resolve(at)
        if resolve(ct_).k == 'vec':
            return setv(at, elementwise(rt, lambda i: '((%s).e[%d] ? (%s).e[%d] : (%s).e[%d])' % (ce, i, ae, i, be, i)))
        return setv(at, '(%s ? %s : %s)' % (ce, ae, be))
    if opc == 'getelementptr':
        body = re.sub(r'^inbounds\s+', '', body); parts = split_top(body); bt, _ = parse_type(parts[0])
        pt, pe = typed_operand(parts[1], cx)
        return setv(T('ptr', to=bt), gep_expr(bt, pe, [typed_operand(p, cx) for p in parts[2:]]))
    if opc == 'load':
        body = re.sub(r'^(volatile|atomic)\s+', '', body); parts = split_top(body); t, _ = parse_type(parts[0]); pt, pe = typed_operand(parts[1], cx)
        rt = resolve(t)
        if rt.k == 'vec': vec_decl(rt)
        if rt.k not in ('int', 'ptr', 'vec'): raise Unsupported('load of ' + repr(rt))
        out.append('  CT_ADDR(%d, %s);' % (site(), pe))
        return setv(t, '*(%s*)%s%s' % (ctype(rt), pe, mask(rt)))
    if opc == 'store':
        body = re.sub(r'^(volatile|atomic)\s+', '', body); a, b = split_top(body); vt, ve = typed_operand(a, cx); pt, pe = typed_operand(b, cx)
        rt = resolve(vt)
        if rt.k == 'vec': vec_decl(rt)
        if rt.k not in ('int', 'ptr', 'vec'): raise Unsupported('store of ' + repr(rt))
        out.append('  CT_ADDR(%d, %s); CT_STORE(%d, %s);' % (site(), pe, site(), pe))
        out.append('  *(%s*)%s = %s;' % (ctype(rt), pe, ve)); return
    if opc == 'alloca':
        parts = split_top(body); t, _ = parse_type(parts[0]); sz, al = size_align(t)
        if len(parts) > 1 and not parts[1].startswith('align'):
            raise Unsupported('dynamic alloca')
        nm = 'a_' + cname(dst[1:])
        cx.decl[nm + '[%d] __attribute__((aligned(%d)))' % (max(sz, 1), al)] = ('static uint8_t' if OPT['ct'] else 'uint8_t')
        cx.decl['v_' + cname(dst[1:])] = 'uint8_t*'
        out.append('  v_%s = %s;' % (cname(dst[1:]), nm)); return
    if opc == 'insertelement':
        v, e, i = split_top(body); vt, ve = typed_operand(v, cx); et, ee = typed_operand(e, cx); it, ie = typed_operand(i, cx)
        rt = resolve(vt); vec_decl(rt); k = const_index(ie)
        if k is None: raise Unsupported('insertelement with variable index')
        tv = cx.fresh(); cx.decl[tv] = ctype(rt); out.append('  %s = %s;' % (tv, ve))
        return setv(vt, elementwise(rt, lambda j: ee if j == k else '%s.e[%d]' % (tv, j)))
    if opc == 'extractelement':
        v, i = split_top(body); vt, ve = typed_operand(v, cx); it, ie = typed_operand(i, cx)
        tv = cx.fresh(); rt = resolve(vt); vec_decl(rt); cx.decl[tv] = ctype(rt); out.append('  %s = %s;' % (tv, ve))
        return setv(rt.elem, '%s.e[%s]' % (tv, ie))
    if opc == 'shufflevector':
        a, b, msk = split_top(body); at, ae = typed_operand(a, cx); bt_, be = typed_operand(b, cx)
        mt, i = parse_type(msk); ms = msk[i:].strip(); ra = resolve(at); n = resolve(mt).n
        if ms in ('zeroinitializer',): idx = [0] * n
        elif ms in ('undef', 'poison'): idx = [None] * n
        else: idx = [None if ('undef' in x or 'poison' in x) else int(x.split()[-1]) for x in split_top(ms[1:-1])]
        rt = T('vec', n=n, elem=ra.elem); vec_decl(ra)
        ta = cx.fresh(); cx.decl[ta] = ctype(ra); out.append('  %s = %s;' % (ta, ae))
        tb = cx.fresh(); cx.decl[tb] = ctype(ra); out.append('  %s = %s;' % (tb, be))
        return setv(rt, elementwise(rt, lambda j: nondet_of(ra.elem) if idx[j] is None else ('%s.e[%d]' % (ta, idx[j]) if idx[j] < ra.n else '%s.e[%d]' % (tb, idx[j] - ra.n))))
    if opc == 'phi': return
    if opc in ('br', 'switch'):
        def jump(lbl):
            tgt = cname(lbl[1:]); cp = []
            for (pd, pt, inc) in phis_of.get(tgt, []):
                if cur not in inc: raise Unsupported('phi without incoming for ' + cur)
                tv = cx.fresh(); cx.decl[tv] = ctype(pt); cp.append((pd, tv, operand(pt, inc[cur], cx)))
            s = ''.join(' %s = %s;' % (tv, e) for (_, tv, e) in cp) + ''.join(' v_%s = %s;' % (cname(pd[1:]), tv) for (pd, tv, _) in cp)
            return '{%s goto L_%s; }' % (s, tgt)
        if opc == 'switch':
            m2 = re.match(r'(.*?),\s*label\s+(%[\w."$-]+)\s*\[(.*)\]\s*$', body)
            vt, ve0 = typed_operand(m2.group(1), cx); dflt = m2.group(2)
            sv = cx.fresh(); cx.decl[sv] = ctype(vt)
            out.append('  %s = (%s)CT_SWV(%d, %s);' % (sv, ctype(vt), site(), ve0)); ve = sv
            for cm in re.finditer(r'(i\d+\s+-?\d+),\s*label\s+(%[\w."$-]+)', m2.group(3)):
                ct2, ce2 = typed_operand(cm.group(1), cx)
                out.append('  if (%s == %s) %s' % (ve, ce2, jump(cm.group(2))))
            out.append('  ' + jump(dflt)); return
        parts = split_top(body)
        if len(parts) == 1: out.append('  ' + jump(parts[0].split()[-1])); return
        ct_, ce = typed_operand(parts[0], cx)
        bt = cx.fresh(); cx.decl[bt] = 'uint8_t'
        out.append('  %s = CT_BRV(%d, %s);' % (bt, site(), ce))       # in CT mode: checked against, and then forced to, the reference run's direction
        out.append('  if (%s) %s else %s' % (bt, jump(parts[1].split()[-1]), jump(parts[2].split()[-1]))); return
    if opc == 'ret':
        if body.startswith('void'): out.append('  return;'); return
        t, e = typed_operand(body, cx); out.append('  return %s;' % e); return
    if opc == 'unreachable': out.append('  __CPROVER_assert(0, "llvm unreachable"); __CPROVER_assume(0);'); return
    if opc == 'call':
        body = re.sub(r'^((fastcc|ccc|nnan|ninf|nsz|arcp|contract|afn|reassoc|fast)\s+)+', '', body)
        body = strip_attrs(body)
        rt, i = parse_type(body); rest = body[i:].strip()
        if resolve(rt).k == 'func' or (resolve(rt).k == 'ptr' and resolve(resolve(rt).to).k == 'func'):
            rt = (resolve(resolve(rt).to) if resolve(rt).k == 'ptr' else resolve(rt)).ret
        if rest.startswith('asm '):
            return inline_asm(rest, rt, dst, cx, out, setv)
        cm = re.match(r'(@"[^"]+"|@[\w.$-]+|%[\w."$-]+)\s*\((.*)\)[^)]*$', rest)
        if not cm: raise Unsupported('call syntax: ' + rest[:80])
        callee, args = cm.group(1), split_top(cm.group(2))
        targs = [typed_operand(a, cx) for a in args if not a.startswith('metadata')]
        name = callee[1:].strip('"')
        if name.startswith(('llvm.lifetime', 'llvm.dbg', 'llvm.assume', 'llvm.experimental.noalias', 'llvm.invariant')): return
        if name.startswith('llvm.fshl') or name.startswith('llvm.fshr'):
            t0 = resolve(targs[0][0]); left = 'fshl' in name
            def f1(a, b, c, et):
                w = resolve(et).bits; ct = ctype(et); sh = '((%s) %% %d)' % (c, w)
                wide = 'uint64_t' if w > 32 else 'uint32_t'
                if left: return '((%s)((%s == 0) ? %s : ((((%s)%s) << %s) | (((%s)%s) >> (%d - %s)))))' % (ct, sh, a, wide, a, sh, wide, b, w, sh)
                return '((%s)((%s == 0) ? %s : ((((%s)%s) >> %s) | (((%s)%s) << (%d - %s)))))' % (ct, sh, b, wide, b, sh, wide, a, w, sh)
            a, b, c = [e for (_, e) in targs]
            if t0.k == 'vec':
                ta, tb, tc = cx.fresh(), cx.fresh(), cx.fresh(); vec_decl(t0)
                for tv, e in ((ta, a), (tb, b), (tc, c)): cx.decl[tv] = ctype(t0); out.append('  %s = %s;' % (tv, e))
                return setv(t0, elementwise(t0, lambda i: f1('%s.e[%d]' % (ta, i), '%s.e[%d]' % (tb, i), '%s.e[%d]' % (tc, i), t0.elem)))
            return setv(t0, f1(a, b, c, t0))
        if name.startswith(('llvm.memcpy', 'llvm.memmove', 'llvm.memset')):
            fn = name.split('.')[1]; out.append('  CT_ADDR(%d, %s); CT_LEN(%d, %s); CT_STORE(%d, %s);' % (site(), targs[0][1], site(), targs[2][1], site(), targs[0][1]))
            if fn != 'memset': out.append('  CT_ADDR(%d, %s);' % (site(), targs[1][1]))
            out.append('  %s(%s, %s, %s);' % (fn, targs[0][1], targs[1][1], targs[2][1])); return
        if name.startswith('llvm.bswap'):
            t0 = resolve(rt); a = targs[0][1]
            def bs1(x, et):
                w = resolve(et).bits; ct = ctype(et); wide = 'uint64_t' if w > 32 else 'uint32_t'
                return '((%s)(%s))' % (ct, ' | '.join('((((%s)%s >> %d) & 0xFF) << %d)' % (wide, x, 8 * k, w - 8 - 8 * k) for k in range(w // 8)))
            if t0.k == 'vec':
                ta = cx.fresh(); vec_decl(t0); cx.decl[ta] = ctype(t0); out.append('  %s = %s;' % (ta, a))
                return setv(t0, elementwise(t0, lambda i: bs1('%s.e[%d]' % (ta, i), t0.elem)))
            return setv(rt, bs1(a, t0))
        mm = re.match(r'llvm\.(umin|umax|smin|smax)\.', name)
        if mm:
            t0 = resolve(targs[0][0]); k = mm.group(1); a, b = targs[0][1], targs[1][1]
            def mn(x, y, et):
                xs, ys = (sgn(et, x), sgn(et, y)) if k[0] == 's' else (x, y)
                return '((%s %s %s) ? %s : %s)' % (xs, '<' if k.endswith('min') else '>', ys, x, y)
            if t0.k == 'vec':
                ta, tb = cx.fresh(), cx.fresh(); vec_decl(t0)
                for tv, e in ((ta, a), (tb, b)): cx.decl[tv] = ctype(t0); out.append('  %s = %s;' % (tv, e))
                return setv(t0, elementwise(t0, lambda i: mn('%s.e[%d]' % (ta, i), '%s.e[%d]' % (tb, i), t0.elem)))
            return setv(t0, mn(a, b, t0))
        if name.startswith('llvm.vector.reduce.'):
            k = name.split('.')[3]; t0 = resolve(targs[0][0]); a = targs[0][1]
            ops = {'or': '|', 'and': '&', 'xor': '^', 'add': '+'}
            if k not in ops: raise Unsupported('intrinsic ' + name)
            ta = cx.fresh(); vec_decl(t0); cx.decl[ta] = ctype(t0); out.append('  %s = %s;' % (ta, a))
            return setv(t0.elem, '((%s)(%s)%s)' % (ctype(t0.elem), (' %s ' % ops[k]).join('%s.e[%d]' % (ta, i) for i in range(t0.n)), mask(t0.elem)))
        if name in ('llvm.trap', 'llvm.ubsantrap'): out.append('  __CPROVER_assert(0, "llvm.trap"); __CPROVER_assume(0);'); return
        if name.startswith('llvm.'): raise Unsupported('intrinsic ' + name)
        if callee.startswith('%'):
            fty = '%s(*)(%s)' % (ctype(rt), ','.join(ctype(t) for (t, _) in targs) or 'void'); ce = '((%s)v_%s)' % (fty, cname(name))
            out.append('  CT_BR(%d, (uintptr_t)v_%s);' % (site(), cname(name)))
        else:
            ce = gname(name); cx.externs.setdefault(name, (rt, [t for (t, _) in targs]))
        call = '%s(%s)' % (ce, ', '.join(e for (_, e) in targs))
        if dst and resolve(rt).k != 'void': return setv(rt, call)
        out.append('  %s;' % call); return
    if opc == 'extractvalue':
        # only the {i32,i32,i32,i32} result of the cpuid inline asm is supported (see inline_asm)
        parts = split_top(body); k = int(parts[-1]); agg = parts[0].split()[-1]
        base = 'v_' + cname(agg[1:])
        return setv(T('int', bits=32), '%s_f%d' % (base, k))
    raise Unsupported('instruction: ' + line[:120])


def inline_asm(rest, rt, dst, cx, out, setv):
    """the only inline assembly in the code base: cpuid (via <cpuid.h>) and xgetbv; both are routed to the
    harness-supplied environment model verif_cpuid / verif_xgetbv"""
    m = re.match(r'asm\s+(sideeffect\s+)?"([^"]*)",\s*"([^"]*)"\s*\((.*)\)', rest)
    if not m: raise Unsupported('inline asm: ' + rest[:80])
    text, cons, args = m.group(2), m.group(3), split_top(m.group(4))
    targs = [typed_operand(a, cx) for a in args]
    base = 'v_' + cname(dst[1:]) if dst else None
    if 'cpuid' in text:
        ins = [c for c in cons.split(',') if not c.startswith('=') and not c.startswith('~')]
        leaf = sub = None
        for c, (t, e) in zip(ins, targs):
            if c in ('0', '{ax}', 'a'): leaf = e
            if c in ('2', '{cx}', 'c'): sub = e
        if leaf is None: raise Unsupported('cpuid asm operands: ' + cons)
        if sub is None: sub = 'verif_garbage_ecx()'
        for k in range(4): cx.decl['%s_f%d' % (base, k)] = 'uint32_t'
        out.append('  verif_cpuid(%s, %s, &%s_f0, &%s_f1, &%s_f2, &%s_f3);' % (leaf, sub, base, base, base, base)); return
    if 'xgetbv' in text or '0x0f, 0x01, 0xd0' in text.lower():
        for k in range(2): cx.decl['%s_f%d' % (base, k)] = 'uint32_t'
        out.append('  verif_xgetbv(%s, &%s_f0, &%s_f1);' % (targs[0][1] if targs else '0', base, base)); return
    raise Unsupported('inline asm: ' + text[:60])


# ---------------------------------------------------------------- module
def const_bytes(t, s, fix, off, cx):
    t = resolve(t); sz = size_align(t)[0]; s = s.strip()
    if s in ('zeroinitializer', 'undef', 'poison'): return [0] * sz
    if t.k == 'int':
        v = int(s) if re.fullmatch(r'-?\d+', s) else {'true': 1, 'false': 0}[s]
        v &= (1 << (8 * sz)) - 1; return [(v >> (8 * k)) & 0xFF for k in range(sz)]
    if t.k == 'ptr':
        if s != 'null': fix.append((off, operand(t, s, cx)))
        return [0] * 8
    if t.k in ('array', 'vec'):
        if s.startswith('c"'):
            raw = s[2:-1]; bs = []; i = 0
            while i < len(raw):
                if raw[i] == '\\' and raw[i + 1] == '\\': bs.append(0x5C); i += 2
                elif raw[i] == '\\': bs.append(int(raw[i + 1:i + 3], 16)); i += 3
                else: bs.append(ord(raw[i])); i += 1
            return bs
        els = split_top(s[1:-1]); es = size_align(t.elem)[0]; bs = []
        for k, e in enumerate(els):
            et, i = parse_type(e); bs += const_bytes(et, e[i:], fix, off + k * es, cx)
        return bs
    if t.k == 'struct':
        inner = s[2:-2] if s.startswith('<{') else s[1:-1]
        els = split_top(inner); bs = [0] * sz
        for k, e in enumerate(els):
            et, i = parse_type(e); fo = field_offset(t, k); b = const_bytes(et, e[i:], fix, off + fo, cx); bs[fo:fo + len(b)] = b
        return bs
    raise Unsupported('constant of ' + repr(t))


FDEF_ATTR = r'\b(dso_local|internal|fastcc|ccc|private|linkonce_odr|weak_odr|weak|hidden|noundef|zeroext|signext|nonnull|noalias|' \
            r'local_unnamed_addr|unnamed_addr|available_externally|external|align \d+|dereferenceable(?:_or_null)?\(\d+\))\b'


def translate(text, tag='mod'):
    NAMED.clear(); VECS.clear(); FUNCS.clear(); del DECLS[:]; SITE[0] = 0
    for am in re.finditer(r'^@("[^"]+"|[\w.$-]+) = .*?alias .*?@("[^"]+"|[\w.$-]+)\s*$', text, re.M):
        text = re.sub(r'@' + re.escape(am.group(1)) + r'(?![\w.$-])', '@' + am.group(2), text.replace(am.group(0), ''))
    lines = text.split('\n'); cx = Ctx()
    for l in lines:
        m = re.match(r'%("[^"]+"|[\w.$-]+) = type (.*)$', l)
        if m: NAMED[m.group(1)] = T('opaque') if m.group(2).strip() == 'opaque' else parse_type(m.group(2))[0]
        m = re.match(r'(define|declare)\s.*?@("[^"]+"|[\w.$-]+)\s*\(', l)
        if m: FUNCS[m.group(2).strip('"')] = m.group(1)
        m = re.match(r'declare\s+(.*?)@("[^"]+"|[\w.$-]+)\s*\((.*)\)', l)
        if m and not m.group(2).startswith('llvm.'): DECLS.append((m.group(2).strip('"'), m.group(1), m.group(3)))
    globs = []; fixups = []; funcs = []; gsizes = {}
    i = 0
    while i < len(lines):
        l = lines[i]
        m = re.match(r'@("[^"]+"|[\w.$-]+) = (.*?)\b(global|constant) (.*)$', l)
        if m:
            name = m.group(1).strip('"'); rest = re.sub(r',\s*(align \d+|section "[^"]*"|comdat[^,]*|!\w+ !\d+)', '', m.group(4)).strip()
            t, j = parse_type(rest); init = rest[j:].strip(); sz, al = size_align(t)
            internal = bool(re.search(r'\b(internal|private)\b', m.group(2))) and name not in OPT['export']
            gsizes[name] = {'size': sz, 'internal': internal, 'cname': gname(name), 'defined': not ('external' in m.group(2) and not rest[j:].strip())}
            if 'external' in m.group(2) and not init:
                globs.append('extern uint8_t %s[%d];' % (gname(name), sz))
            else:
                fix = []; bs = const_bytes(t, init or 'zeroinitializer', fix, 0, cx)
                const = 'const ' if (m.group(3) == 'constant' and not fix) else ''
                globs.append('%s%suint8_t %s[%d] __attribute__((aligned(%d))) = {%s};' %
                             ('static ' if internal else '', const, gname(name), max(sz, 1), max(al, 1), ','.join(map(str, bs))))
                fixups += [(gname(name), o, e) for (o, e) in fix]
        m = re.match(r'define\s+(.*?)@("[^"]+"|[\w.$-]+)\s*\((.*)\)[^()]*\{\s*$', l)
        if m:
            pre = re.sub(FDEF_ATTR, '', m.group(1)).strip()
            rt, _ = parse_type(pre); name = m.group(2).strip('"'); params = []
            for k, p in enumerate(split_top(m.group(3))):
                pt, j = parse_type(p); pm = re.search(r'(%[\w."$-]+)\s*$', p)
                params.append((pt, pm.group(1) if pm else '%' + str(k)))
            body = []; i += 1
            while lines[i].strip() != '}': body.append(lines[i]); i += 1
            internal = bool(re.search(r'\b(internal|private)\b', m.group(1))) and name not in OPT['export']
            funcs.append((name, rt, params, body, internal))
        i += 1
    fout = []; sigs = {}
    for (name, rt, params, body, internal) in funcs:
        cx.decl = {}; cx.tmp = 0; code = []
        blocks = []; cur = str(len(params)); phis_of = {}
        blk = (cur, []); blocks.append(blk)
        for l in body:
            l = l.split(' ; ')[0].rstrip() if not l.strip().startswith(';') else ''
            if not l.strip(): continue
            m = re.match(r'("[^"]+"|[\w.$-]+):', l)
            if m: blk = (cname(m.group(1)), []); blocks.append(blk); continue
            blk[1].append(l.strip())
            m = re.match(r'(%[\w."$-]+)\s*=\s*phi\s+(.*)$', l.strip())
            if m:
                t, j = parse_type(m.group(2)); inc = {}
                for pr in re.findall(r'\[\s*(.+?),\s*%("[^"]+"|[\w.$-]+)\s*\]', m.group(2)[j:]): inc[cname(pr[1])] = pr[0]
                phis_of.setdefault(blk[0], []).append((m.group(1), t, inc)); cx.decl['v_' + cname(m.group(1)[1:])] = ctype(t)
                if resolve(t).k == 'vec': vec_decl(resolve(t))
        for (bn, insts) in blocks:
            code.append(' L_%s: ;' % bn)
            for ins in insts:
                try:
                    translate_inst(ins, cx, code, phis_of, bn)
                except Unsupported:
                    raise
                except Exception as ex:
                    raise Unsupported('cannot translate %r in %s: %s' % (ins[:100], name, ex))
        for pt, _ in params:
            if resolve(pt).k == 'vec': vec_decl(resolve(pt))
        if resolve(rt).k == 'vec': vec_decl(resolve(rt))
        sig = '%s %s(%s)' % (ctype(rt), gname(name), ', '.join('%s v_%s' % (ctype(pt), cname(pn[1:])) for (pt, pn) in params) or 'void')
        fout.append(('static ' if internal else '') + sig + '\n{\n' + ''.join('  %s %s;\n' % (ct, v) for (v, ct) in cx.decl.items()) + '\n'.join(code) + '\n}\n')
        sigs[name] = {'ret': ctype(rt), 'params': [ctype(pt) for (pt, _) in params], 'internal': internal, 'cname': gname(name)}
    protos = []
    for (name, rt, params, body, internal) in funcs:
        protos.append(('static ' if internal else '') + '%s %s(%s);' % (ctype(rt), gname(name), ', '.join(ctype(pt) for (pt, _) in params) or 'void'))
    defined = {f[0] for f in funcs}
    skip_protos = {'memcpy', 'memset', 'memmove'}
    for (dn, dpre, dpar) in DECLS:
        if dn in defined or dn in skip_protos: continue
        dpre2 = re.sub(FDEF_ATTR, '', dpre).strip()
        try:
            drt, _ = parse_type(dpre2)
            dts = [parse_type(strip_attrs(x.strip()))[0] for x in split_top(dpar) if x.strip() and x.strip() != '...']
            if dn in ('calloc', 'malloc', 'free', 'abort', 'exit', 'realloc') and dn not in OPT['rename']:
                continue   # provided by <stdlib.h>
            protos.append('%s %s(%s);' % (ctype(drt), gname(dn), ', '.join(ctype(t) for t in dts) or 'void'))
        except Unsupported as ex:
            protos.append('/* declaration of %s skipped: %s */' % (dn, ex))
    hdr = ['/* generated by ll2c from clang-14 IR - do not edit */',
           '#include <stdint.h>', '#include <stddef.h>', '#include <string.h>', '#include <stdlib.h>',
           '#ifdef CT_MODE', '#include "ct.h"', '#else',
           '#define CT_ADDR(id,p) ((void)0)', '#define CT_BR(id,c) ((void)0)', '#define CT_BRV(id,c) (c)', '#define CT_SWV(id,v) (v)', '#define CT_LEN(id,n) ((void)0)', '#define CT_STORE(id,p) ((void)0)', '#endif',
           'uint8_t nondet_u8(void); uint16_t nondet_u16(void); uint32_t nondet_u32(void); uint64_t nondet_u64(void);',
           'void verif_cpuid(unsigned leaf, unsigned sub, unsigned *a, unsigned *b, unsigned *c, unsigned *d);',
           'unsigned verif_garbage_ecx(void); void verif_xgetbv(unsigned idx, unsigned *lo, unsigned *hi);']
    init = 'void ll2c_init_%s(void)\n{\n%s}\n' % (tag, ''.join('  *(uint8_t**)(%s + %d) = %s;\n' % f for f in fixups))
    layout = {}
    for n, t in NAMED.items():
        t2 = t
        if t2.k == 'struct':
            try: layout[n] = {'size': size_align(t2)[0], 'offsets': [field_offset(t2, k) for k in range(len(t2.fields))]}
            except Unsupported: pass
    info = {'functions': sigs, 'globals': gsizes, 'layout': layout, 'init': 'll2c_init_%s' % tag, 'sites': SITE[0],
            'has_fixups': bool(fixups)}
    return '\n'.join(hdr + list(VECS.values()) + globs + protos + fout + [init]), info


def translate_file(path, tag='mod', prefix='ll_', ct=False, export=(), rename=None):
    OPT['prefix'] = prefix; OPT['ct'] = ct; OPT['export'] = set(export); OPT['rename'] = dict(rename or {})
    return translate(open(path).read(), tag)


def shim_source(real_path, info, prefix, export=()):
    """C source that includes the real file and exposes its functions under the erased ll_ signatures, so the
    harness that drove the translated code can be linked against the gcc build of the real code for replay"""
    out = ['/* replay shim: the real file plus wrappers with the erased signatures */',
           '#include <stdint.h>', '#include <stddef.h>', '#include "%s"' % real_path]
    for name, s in info['functions'].items():
        if any(p.startswith('V') for p in s['params']) or s['ret'].startswith('V'): continue
        if s['internal'] and name not in export: continue   # clang may have changed the signature of internal functions
        if not re.fullmatch(r'[A-Za-z_]\w*', name): continue
        ps = ', '.join('%s a%d' % (p, k) for k, p in enumerate(s['params'])) or 'void'
        args = ', '.join(('(void*)a%d' % k) if p == 'uint8_t*' else 'a%d' % k for k, p in enumerate(s['params']))
        if s['ret'] == 'void': body = '%s(%s);' % (name, args)
        elif s['ret'] == 'uint8_t*': body = 'return (uint8_t*)%s(%s);' % (name, args)
        else: body = 'return (%s)%s(%s);' % (s['ret'], name, args)
        out.append('%s %s(%s) { %s }' % (s['ret'], s['cname'], ps, body))
    for name, g in info['globals'].items():
        if g['internal'] or not g['defined'] or not re.fullmatch(r'[A-Za-z_]\w*', name): continue
        out.append('extern __typeof__(%s) %s __attribute__((alias("%s")));' % (name, g['cname'], name))
    out.append('void %s(void) { }' % info['init'])
    return '\n'.join(out) + '\n'


if __name__ == '__main__':
    import argparse
    ap = argparse.ArgumentParser()
    ap.add_argument('inp'); ap.add_argument('out'); ap.add_argument('info')
    ap.add_argument('--prefix', default='ll_'); ap.add_argument('--tag', default='mod'); ap.add_argument('--ct', action='store_true')
    ap.add_argument('--export', default=''); ap.add_argument('--rename', default='')
    a = ap.parse_args()
    try:
        src, info = translate_file(a.inp, a.tag, a.prefix, a.ct, [x for x in a.export.split(',') if x],
                                   dict(x.split('=') for x in a.rename.split(',') if x))
    except Unsupported as e:
        sys.stderr.write('UNSUPPORTED: %s\n' % e); sys.exit(3)
    open(a.out, 'w').write(src); json.dump(info, open(a.info, 'w'))
