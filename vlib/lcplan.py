"""queries over harness/lc.c (CTR objects) and harness/lcp.c (parallel-ECB objects), shared by C14-C17"""
from .core import Q, LL
from .common import *

RENAME = {'calloc': 'vh_calloc', 'free': 'vh_free'}

def ctr_q(kind, c, v, name, desc, defs, **kw):
    ll = ctr_vec_ll(c, v, extra_rename=RENAME) if v else []
    d = {'CIPHER': c, 'VEC': v}; d.update(defs)
    return Q('%s:%s:%s' % (kind, be_name(c, v), name), 'lc.c', desc, defs=d, ll=ll, fsarray=(1300 if v else None), sanitize=True, timeout=kw.pop('timeout', 900), **kw)

SEQS_QUICK = ['IX', 'IKCPX', 'IXX', 'XZKCP', 'IXKCPT', 'IXIKPX', 'IiKkxPX', 'ITCPKPX', 'IBX', 'IKPBPX']
SEQS_MORE = ['IKPIKPX', 'IiXxIiXx', 'IKCPXIKCPX', 'ZX', 'IPX', 'ICX', 'ITX', 'IKxPX', 'iIKkPpXx', 'IKPXPKC', 'IXZX']

def seq_queries(tier):
    qs = []
    for (c, v) in CTR_BACKENDS:
        for s in (SEQS_QUICK if tier == 'quick' else SEQS_QUICK + SEQS_MORE):
            qs.append(ctr_q('seq', c, v, s, 'operation sequence %s (I init, K set_key, B rejected set_key, T tweak(ed key), C counter, P process %s bytes, X cleanup, Z zero; lower case = second object) on %s CTR objects (data concrete, justified by C08): '
                            'calls return 1 exactly while the object is live, nothing leaks, nothing is freed twice, every freed block is zero' % (s, 'B+3', be_name(c, v)),
                            {'OB_SEQ': 1, 'SEQ': '"%s"' % s}))
    return qs

WROUNDS = {1: (0, 40, 48, 56), 2: (0, 32, 36, 40), 3: (0, 5, 8)}

def wipe_queries(tier):
    qs = []
    for (c, v) in CTR_BACKENDS:
        for shift in ((0,) if (v == 0 or tier == 'quick') else (0, 16)):
            for wr in (WROUNDS[c] if (tier == 'thorough' or v == 0) else (WROUNDS[c][1], WROUNDS[c][-1])):
                qs.append(ctr_q('wipe', c, v, 'shift%d:r%d' % (shift, wr), 'cleanup of a %s CTR object whose context holds ARBITRARY bytes (round count %d; over-approximates every history): every byte of the allocated block incl. alignment slack is zero at free()' % (be_name(c, v), wr),
                                {'OB_WIPE': 1, 'CALLOC_SHIFT': shift, 'WROUNDS': wr}))
    return qs

def allocfail_queries(tier):
    qs = []
    for (c, v) in CTR_BACKENDS:
        qs.append(ctr_q('allocfail', c, v, 'init', 'the allocation inside init of the %s CTR back end fails, handle bytes arbitrary before: returns 0, nothing leaked%s' % (be_name(c, v), '' if v else ', handle left inert by the dispatcher (vtable or ctx null)'),
                        {'OB_ALLOCFAIL': 1}))
    return qs

def inert_queries(tier):
    qs = []
    for (c, v) in CTR_BACKENDS:
        for kind in (0, 1):
            qs.append(ctr_q('inert', c, v, 'kind%d' % kind, 'every call on an inert %s CTR handle (%s) returns 0, writes nothing, and cleanup frees nothing' % (be_name(c, v), 'no back end, ctx arbitrary' if kind == 0 else 'back end set, ctx null'),
                            {'OB_INERT': 1, 'INERT_KIND': kind}))
    return qs

ERRCASES = {1: 'null key', 2: 'key too short', 3: 'key too long', 4: 'null tweaked key / Mantis rounds 4', 5: 'tweaked key too long / Mantis tweak of 7 bytes', 6: 'tweak length 0', 7: 'tweak too long',
            8: 'counter too long', 9: 'null output pointer', 10: 'null input pointer', 11: 'counter length 0xFFFFFFFF',
            12: 'null tweak with length 0', 13: 'null tweak with length block+1'}

def err_queries(tier):
    qs = []
    for (c, v) in CTR_BACKENDS:
        for e, what in ERRCASES.items():
            qs.append(ctr_q('err', c, v, 'case%d' % e, 'invalid call (%s) on a live %s CTR object with arbitrary context content: returns 0; context, handle and caller buffers byte-identical' % (what, be_name(c, v)),
                            {'OB_ERR': 1, 'ERRCASE': e}))
    return qs

# ---------------------------------------------------------------- parallel-ECB objects (harness/lcp.c)
PSEQ_QUICK = ['IX', 'IKEDX', 'IXX', 'XZKE', 'IXKED', 'IXIKEX', 'IiKkxEX']
PSEQ_MORE = ['IKEIKEX', 'IiXxIiXx', 'ZX', 'IEX', 'IDX', 'IKxEX', 'iIKkEeXx', 'IXZX']
PERR = {1: 'set_key on a null object', 2: 'null key', 3: 'key length out of range (low / Mantis 17)', 4: 'key length out of range (high / Mantis 15)', 5: 'processing with a null object',
        6: 'byte count one short of a whole number of blocks', 7: 'byte count 1', 8: 'decrypt of blk+1 bytes / Mantis 9 rounds', 9: 'decrypt with a null object / Mantis 4 rounds',
        10: 'encrypt of 257 bytes (two full batches + 1)', 11: 'decrypt of 128+blk+3 bytes', 12: 'decrypt of 65 bytes'}

def par_q(kind, c, name, desc, defs, **kw):
    d = {'CIPHER': c}; d.update(defs)
    return Q('%s:%s-parallel:%s' % (kind, CTR_CIPH[c], name), 'lcp.c', desc, defs=d, sanitize=True, timeout=kw.pop('timeout', 1200), mem_gb=24, mem_est=(4 if kind == 'wipe' else 1.5), **kw)

def par_seq_queries(tier):
    qs = []
    for c in (1, 2, 3):
        for sel in ((0, 1, 2) if c == 1 else (0, 1)):
            be = ['generic', 'vec128', 'vec256'][sel]
            for s in (PSEQ_QUICK if tier == 'quick' else PSEQ_QUICK + PSEQ_MORE):
                qs.append(par_q('seq', c, '%s:%s' % (be, s), 'operation sequence %s (I init, K set_key, E encrypt 3 blocks, D decrypt, X cleanup, Z zero; lower case = second object) on %s parallel-ECB objects served by the %s back end '
                                '(data concrete, justified by C08): calls return 1 exactly while live, nothing leaks, nothing freed twice, every freed block is zero' % (s, CTR_CIPH[c], be), {'OB_SEQ': 1, 'SEQ': '"%s"' % s, 'BACKSEL': sel}))
    return qs

def par_wipe_queries(tier):
    return [par_q('wipe', c, 'arbitrary:r%d' % wr, 'cleanup of a %s parallel-ECB object whose key schedule holds arbitrary bytes (round count %d): every byte is zero at free()' % (CTR_CIPH[c], wr), {'OB_WIPE': 1, 'WROUNDS': wr})
            for c in (1, 2, 3) for wr in WROUNDS[c]]

def par_allocfail_queries(tier):
    qs = []
    for c in (1, 2, 3):
        qs.append(par_q('allocfail', c, 'init', 'the allocation inside %s_parallel_ecb_init fails, handle bytes arbitrary before: returns 0, nothing leaked, handle inert (ctx null)' % CTR_CIPH[c], {'OB_ALLOCFAIL': 1}))
        qs.append(par_q('inert', c, 'ctxnull', 'every call on an inert %s parallel-ECB handle (ctx null, other fields arbitrary) returns 0, writes nothing; cleanup frees nothing' % CTR_CIPH[c], {'OB_INERT': 1}))
    return qs

def par_err_queries(tier):
    qs = []
    for c in (1, 2, 3):
        qs.append(par_q('err', c, 'initnull', '%s_parallel_ecb_init(NULL) returns 0' % CTR_CIPH[c], {'OB_INITNULL': 1}))
        for e, what in PERR.items():
            for sel in ((0, 1, 2) if c == 1 else (0, 1)):
                if e < 10 and sel != (2 if c == 1 else 1): continue          # small sizes: one back end is enough (the size check comes first)
                qs.append(par_q('err', c, 'case%d:%s' % (e, ['generic', 'vec128', 'vec256'][sel]), 'invalid call (%s) on a live %s parallel-ECB object (%s back end) with arbitrary schedule content: returns 0; schedule, handle and caller buffers byte-identical' % (what, CTR_CIPH[c], ['generic', 'vec128', 'vec256'][sel]),
                                {'OB_ERR': 1, 'ERRCASE': e, 'BACKSEL': sel}))
    return qs
