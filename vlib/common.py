"""pieces shared by several property plans"""
import os, sys, subprocess, tempfile
from .core import VERIF, REPO, sh

def pre_model_selftest(R):
    """E3: the reference models must reproduce the ten published vectors before any verdict is trusted"""
    exe = os.path.join(R.scratch, 'selftest')
    rc, out, _, _, _ = sh(['gcc', '-O1', '-w', '-I' + os.path.join(VERIF, 'models'),
                           os.path.join(VERIF, 'models', 'selftest.c'), '-o', exe], timeout=120)
    if rc != 0: return False, 'model self-test did not compile: ' + out[-300:]
    rc, out, _, _, _ = sh([exe], timeout=60)
    ok = rc == 0 and 'MODEL-SELFTEST-OK' in out
    return ok, 'reference models vs the 10 published vectors + S-box tables: ' + ('ok' if ok else 'FAILED ' + out[-300:])

MODEL_ASSUMPTION = ('oracle: cell-level C models of SKINNY/MANTIS written from the specification (models/*.h), '
                    'validated natively on the 10 published vectors at the start of every run')
BASE_ASSUMPTIONS = [
    'CBMC 6.11 C front end (gcc-compatible, -std=c99 as shipped), symbolic execution and CNF encoding are trusted; '
    'kissat UNSAT answers are not proof-checked',
    'all loops unwound with --unwinding-assertions; a bound that is too small is reported, not truncated',
    'x86-64 little-endian host macros as gcc predefines them; gcc\'s own code generation is outside the claim',
]

LIB_C = ['skinny-internal', 'skinny128-cipher', 'skinny128-ctr', 'skinny128-ctr-vec128', 'skinny128-ctr-vec256',
         'skinny128-parallel', 'skinny128-parallel-vec128', 'skinny128-parallel-vec256', 'skinny64-cipher', 'skinny64-ctr',
         'skinny64-ctr-vec128', 'skinny64-parallel', 'skinny64-parallel-vec128', 'mantis-cipher', 'mantis-ctr',
         'mantis-ctr-vec128', 'mantis-parallel', 'mantis-parallel-vec128']

def vec_flag(name):
    """per-file SIMD flags of src/Makefile"""
    if 'skinny-internal' in name: return '-mavx2'      # -msse2 -mavx2 in the Makefile; -mavx2 implies SSE2
    return '-mavx2' if 'vec256' in name else '-msse2'

def pre_ll_diff(R):
    """differential validation of ll2c on every run: gcc build of the generated C vs gcc build of the real
    functions (scalar ciphers, parallel batch functions, whole CTR sessions through the vec vtables)"""
    import os
    from .core import INC, dflags, cfg_defs, GUARD
    d = os.path.join(R.scratch, 'lldiff'); os.makedirs(d, exist_ok=True)
    objs = []; inits = []
    inc = INC
    for f in LIB_C:
        src = os.path.join(REPO, 'src', f + '.c')
        # real object, shipped flags
        rc, out, _, _, _ = sh(['gcc', '-std=c99', '-O3', '-w', vec_flag(f), '-D' + GUARD] + inc + ['-c', src, '-o', os.path.join(d, 'r_%s.o' % f)], timeout=300)
        if rc: return False, 'll-diff: gcc failed on %s: %s' % (f, out[-300:])
        objs.append(os.path.join(d, 'r_%s.o' % f))
        if f in ('skinny-internal', 'skinny128-ctr', 'skinny64-ctr', 'mantis-ctr', 'skinny128-parallel', 'skinny64-parallel', 'mantis-parallel'):
            continue
        ll = os.path.join(d, f + '.ll'); c = os.path.join(d, 'l_%s.c' % f)
        rc, out, _, _, _ = sh(['clang-14', '-std=c99', '-O1', '-fno-vectorize', '-fno-slp-vectorize', '-fno-unroll-loops', vec_flag(f), '-D' + GUARD] + inc +
                              ['-S', '-emit-llvm', src, '-o', ll], timeout=300)
        if rc: return False, 'll-diff: clang failed on %s: %s' % (f, out[-300:])
        tag = f.replace('-', '_')
        rc, out, _, _, _ = sh([sys.executable, os.path.join(VERIF, 'vlib', 'll2c.py'), ll, c, c + '.json', '--tag', tag], timeout=300)
        if rc: return False, 'll-diff: ll2c cannot translate %s: %s' % (f, out[-300:])
        inits.append('ll2c_init_' + tag)
        rc, out, _, _, _ = sh(['gcc', '-std=gnu99', '-O1', '-w', '-c', c, '-o', os.path.join(d, 'l_%s.o' % f)], timeout=300)
        if rc: return False, 'll-diff: gcc failed on translated %s: %s' % (f, out[-300:])
        objs.append(os.path.join(d, 'l_%s.o' % f))
    with open(os.path.join(d, 'inits.c'), 'w') as fh:
        fh.write(''.join('void %s(void);\n' % i for i in inits) + 'void ll_inits_all(void){ %s }\n' % ' '.join(i + '();' for i in inits))
    # translated skinny_calloc/has_vec are not linked: the translated vec modules call ll_skinny_calloc etc.
    with open(os.path.join(d, 'glue.c'), 'w') as fh:
        fh.write('#include <stdint.h>\n#include <stddef.h>\nvoid *skinny_calloc(size_t, void **);\n'
                 'uint8_t *ll_skinny_calloc(uint64_t n, uint8_t *b){ return (uint8_t*)skinny_calloc(n, (void**)b); }\n')
    exe = os.path.join(d, 'lldiff')
    rc, out, _, _, _ = sh(['gcc', '-std=gnu99', '-O1', '-w', '-DLL_INITS=ll_inits_all'] + inc +
                          [os.path.join(VERIF, 'harness', 'll_diff.c'), os.path.join(d, 'inits.c'), os.path.join(d, 'glue.c')] + objs + ['-o', exe], timeout=300)
    if rc: return False, 'll-diff: link failed: ' + out[-800:]
    rc, out, _, _, _ = sh([exe], timeout=300)
    ok = rc == 0 and 'LL-DIFF-OK' in out
    return ok, 'll2c differential validation (translated C vs real functions, gcc builds): ' + out.strip()[-200:]

# ---- CTR back ends: (cipher id, vec width) -> files, names, layout ----
CTR_CIPH = {1: 'skinny128', 2: 'skinny64', 3: 'mantis'}
CTR_BACKENDS = [(1, 0), (1, 128), (1, 256), (2, 0), (2, 128), (3, 0), (3, 128)]
CTR_FUNCS = ['init', 'cleanup', 'set_key', 'set_tweaked_key', 'set_tweak', 'set_counter', 'encrypt']
VLAYOUT = {  # expected x86-64 layout of the vector contexts: counter, ecounter, offset, base_ptr, size
    (1, 128): ('Skinny128CTRVec128Ctx_t', 480, 544, 608, 616, 624), (1, 256): ('Skinny128CTRVec256Ctx_t', 480, 608, 736, 744, 768),
    (2, 128): ('Skinny64CTRVec128Ctx_t', 176, 240, 304, 312, 320), (3, 128): ('MantisCTRVec128Ctx_t', 48, 112, 176, 184, 192)}

def be_name(c, v):
    return '%s-%s' % (CTR_CIPH[c], 'generic' if v == 0 else 'vec%d' % v)

def ctr_vec_ll(c, v, extra_rename=None, opt='-O1', ct=False):
    """ll units for the vector CTR back end of cipher c, width v: the vec file (statics exported) + the translated scalar cipher"""
    from .core import LL
    n = CTR_CIPH[c]
    funcs = [f for f in CTR_FUNCS if not (c == 3 and f == 'set_tweaked_key')]
    exp = tuple('%s_ctr_vec%d_%s' % (n, v, f) for f in funcs)
    return [LL('src/%s-ctr-vec%d.c' % (n, v), flags=('-mavx2' if v == 256 else '-msse2',), export=exp, rename=extra_rename, opt=opt, ct=ct),
            LL('src/%s-cipher.c' % n, flags=('-msse2',), opt=opt, ct=ct)]

def pre_layout(R):
    """the byte offsets the harnesses use for vector contexts must equal gcc's offsetof and clang's layout"""
    import json
    from .core import INC, GUARD
    prog = ['#include <stdio.h>', '#include <stddef.h>']
    body = []
    for (c, v), (t, oc, oe, oo, ob, sz) in VLAYOUT.items():
        n = CTR_CIPH[c]
        # include each vec file in its own namespace by compiling separately would be cleaner; the struct names are unique
        body.append((n, v, t, (oc, oe, oo, ob, sz)))
    ok = True; notes = []
    for n, v, t, exp in body:
        src = os.path.join(R.scratch, 'lay_%s_%d.c' % (n, v))
        with open(src, 'w') as f:
            f.write('#include <stdio.h>\n#include <stddef.h>\n#include "%s/src/%s-ctr-vec%d.c"\nint main(void){ printf("%%zu %%zu %%zu %%zu %%zu\\n", offsetof(%s,counter), offsetof(%s,ecounter), offsetof(%s,offset), offsetof(%s,base_ptr), sizeof(%s)); return 0; }\n'
                    % (REPO, n, v, t, t, t, t, t))
        exe = src[:-2]
        rc, out, _, _, _ = sh(['gcc', '-std=c99', '-O0', '-w', '-mavx2' if v == 256 else '-msse2', '-D' + GUARD, '-no-pie', '-Wl,--unresolved-symbols=ignore-all'] + INC + [src, '-o', exe], timeout=120)
        if rc: return False, 'layout: cannot compile %s: %s' % (src, out[-300:])
        rc, out, _, _, _ = sh([exe], timeout=30)
        got = tuple(int(x) for x in out.split())
        if got != exp: ok = False; notes.append('%s vec%d: gcc %s, harness %s' % (n, v, got, exp))
        ll = src[:-2] + '.ll'
        rc, out, _, _, _ = sh(['clang-14', '-std=c99', '-O1', '-mavx2' if v == 256 else '-msse2', '-D' + GUARD] + INC +
                              ['-S', '-emit-llvm', os.path.join(REPO, 'src', '%s-ctr-vec%d.c' % (n, v)), '-o', ll], timeout=120)
        if rc: return False, 'layout: clang failed: ' + out[-300:]
        rc, out, _, _, _ = sh([sys.executable, os.path.join(VERIF, 'vlib', 'll2c.py'), ll, ll + '.c', ll + '.json'], timeout=120)
        if rc: return False, 'layout: ll2c failed: ' + out[-300:]
        lay = json.load(open(ll + '.json'))['layout'].get('struct.' + t)
        if not lay: ok = False; notes.append('%s vec%d: struct %s not in IR' % (n, v, t))
        else:
            cl = tuple(lay['offsets'][1:5]) + (lay['size'],)
            if cl != exp: ok = False; notes.append('%s vec%d: clang/ll2c %s, harness %s' % (n, v, cl, exp))
    return ok, 'vector context layout (gcc offsetof and clang/ll2c layout vs harness constants): ' + ('ok' if ok else 'MISMATCH ' + '; '.join(notes))


def ctr_rekey_queries(tier, ops_filter=None):
    """C05-style obligation for key/tweak changes in mid-stream on every CTR back end (harness/c05.c, OB_REKEY)"""
    from .core import Q
    qs = []
    for (c, v) in CTR_BACKENDS:
        name = be_name(c, v); blk = 16 if c == 1 else 8
        lanes = {(1, 0): 1, (1, 128): 4, (1, 256): 8, (2, 0): 1, (2, 128): 8, (3, 0): 1, (3, 128): 8}[(c, v)]; B = blk * lanes
        ll = ctr_vec_ll(c, v) if v else []
        ops = [(1, 'set_key', [16] if c == 3 else [blk, 3 * blk])]
        if c != 3: ops += [(2, 'set_tweaked_key', [blk]), (3, 'set_tweak', [1, blk])]
        else: ops += [(3, 'set_tweak', [8])]
        offs = sorted(set([1, blk, B - 1, B])) if tier == 'quick' else sorted(set(list(range(0, blk + 2)) + [B // 2, B - blk - 1, B - blk, B - 1, B]))
        for op, oname, lens in ops:
            if ops_filter and oname not in ops_filter: continue
            for kl in lens:
                for o in offs:
                    qs.append(Q('rekey:%s:%s:%d:o%d' % (name, oname, kl, o), 'c05.c',
                                '%s(len %d) on the %s back end in mid-stream (offset %d, arbitrary old schedule, arbitrary buffered bytes): returns 1, lanes stay staggered, and any keystream still counted as buffered is the encryption under the NEW schedule' % (oname, kl, name, o),
                                defs={'CIPHER': c, 'VEC': v, 'OB_REKEY': 1, 'OP': op, 'KLEN': kl, 'O': o, 'NR': (5 if c == 3 else (40 if c == 1 else 32)) if op != 3 else 2}, ll=ll, timeout=900, fsarray=(1300 if v else None), sanitize=True))
    return qs

def pre_engine_canaries(R):
    """reproducers of the three CBMC 6.11 front-end defects that decide the routing of the obligations (DESIGN section 2):
    recorded in the evidence on every run; informational - a defect that disappears only means a detour is no longer needed"""
    names = {'vecshift': "'>>' on GCC vectors", 'veclayout': 'layout of structs with vector members', 'unionsimp': 'union write with non-literal index'}
    st = []
    for n, what in names.items():
        rc, out, _, _, _ = sh(['cbmc', os.path.join(VERIF, 'harness', 'canary', n + '.c'), '--function', 'harness', '--no-standard-checks'], timeout=120)
        st.append('%s: %s' % (what, 'still mis-modelled' if 'VERIFICATION FAILED' in out else ('modelled correctly' if 'VERIFICATION SUCCESSFUL' in out else 'no verdict')))
    return True, 'CBMC engine canaries - ' + '; '.join(st)
