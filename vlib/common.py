"""pieces shared by several property plans"""
import os, subprocess, tempfile
from .core import VERIF, REPO, sh

def pre_model_selftest(R):
    """E3: the reference models must reproduce the ten published vectors before any verdict is trusted"""
    exe = os.path.join(R.scratch, 'selftest')
    rc, out, _, _, _ = sh(['gcc', '-O1', '-w', '-I' + os.path.join(VERIF, 'models'),
                           os.path.join(VERIF, 'models', 'selftest.c'), '-o', exe], timeout=120)
    if rc != 0: return False, 'model self-test did not compile: ' + out[-300:]
    rc, out, _, _, _ = sh([exe], timeout=60)
    ok = rc == 0 and 'MODEL-SELFTEST-OK' in out
    return ok, 'reference models vs the 10 published vectors + S-box tables: ' + ('ok' if ok else 'FAILED ' + out[-300:])

MODEL_ASSUMPTION = ('oracle: cell-level C models of SKINNY/MANTIS written from the specification (models/*.h), '
                    'validated natively on the 10 published vectors at the start of every run')
BASE_ASSUMPTIONS = [
    'CBMC 6.11 C front end (gcc-compatible, -std=c99 as shipped), symbolic execution and CNF encoding are trusted; '
    'kissat UNSAT answers are not proof-checked',
    'all loops unwound with --unwinding-assertions; a bound that is too small is reported, not truncated',
    'x86-64 little-endian host macros as gcc predefines them; gcc\'s own code generation is outside the claim',
]
