"""core.py - query runner for the solver-based checks of rweather/skinny-c.

A check is a list of queries (class Q).  Each query names a harness (a C file under
/verif/harness that drives real functions of /repo symbolically), the translation units
it is linked with (real files from /repo's working tree, compiled by goto-cc with the
shipped flags, or clang IR of real files translated by ll2c), bounds, and what is
expected.  The runner rebuilds everything from /repo's current working tree, runs CBMC
with kissat as back end in parallel, runs a -DWITNESS twin per query to rule out
vacuity, replays every counterexample against a gcc build of the real code, and writes
the evidence file.

exit 0: every obligation discharged (UNSAT within the bounds, twin reachable)
exit 1: a counterexample reproduced on the real build  -> VIOLATION line
exit 2: inconclusive (timeout, unknown construct, non-reproducing counterexample...)
"""
import shlex, os, sys, json, re, time, shutil, hashlib, signal, subprocess, tempfile, resource, threading
from concurrent.futures import ThreadPoolExecutor, as_completed

VERIF = os.path.dirname(os.path.dirname(os.path.abspath(__file__)))
REPO = os.environ.get('VERIF_REPO', '/repo')
OUT = os.environ.get('VERIF_OUT', VERIF)       # where evidence/ and replays/ are written (seed runs redirect it)
GUARD = 'SKINNY_C_VERIF'
JOBS = int(os.environ.get('VERIF_JOBS', str(os.cpu_count() or 4)))
MEM_BUDGET_GB = float(os.environ.get('VERIF_MEM_GB', '40'))     # solver jobs are admitted while their estimated peak RSS fits this budget
SHIPPED_STD = 'c99'                       # options.mak: STDC_CFLAGS = -std=c99

INC = ['-I' + os.path.join(VERIF, 'harness'), '-I' + os.path.join(VERIF, 'models'),
       '-I' + os.path.join(REPO, 'include'), '-I' + os.path.join(REPO, 'src'),
       '-I' + os.path.join(REPO, 'examples')]
STUB_INC = '-I' + os.path.join(VERIF, 'stubs')

HARMLESS_NOBODY = re.compile(r'nondet_|__CPROVER|^__builtin|vh_replay')


def log(*a):
    print(*a, flush=True)


class Q:
    """one solver query (plus its witness twin)"""
    def __init__(self, name, harness, desc, defs=None, units=(), ll=(), cfg=None, unwind=1300,
                 unwindset=None, flags=(), timeout=600, mem_gb=12, witness=True, expect='pass',
                 stubs=False, entry='harness', kf=None, group=None, functions=(), replay=True,
                 malloc_fail=False, sanitize=False, objbits=None, fsarray=None, std=SHIPPED_STD, mem_est=1.5, solver='kissat'):
        self.name = name; self.harness = harness; self.desc = desc
        self.defs = dict(defs or {}); self.units = list(units); self.ll = list(ll)
        self.cfg = dict(cfg or {}); self.unwind = unwind; self.unwindset = dict(unwindset or {})
        self.flags = list(flags); self.timeout = timeout; self.mem_gb = mem_gb
        self.witness = witness; self.expect = expect; self.stubs = stubs; self.entry = entry
        self.kf = kf; self.group = group or name.split(':')[0]; self.functions = list(functions)
        self.replay = replay; self.malloc_fail = malloc_fail; self.sanitize = sanitize
        self.objbits = objbits; self.fsarray = fsarray; self.std = std; self.mem_est = mem_est; self.solver = solver


class Unit:
    """a native translation unit from /repo (path relative to REPO, or absolute)"""
    def __init__(self, path, defs=None):
        self.path = path; self.defs = dict(defs or {})
    def key(self): return ('U', self.path, tuple(sorted(self.defs.items())))


class LL:
    """a file of /repo compiled by clang to IR and translated by ll2c"""
    def __init__(self, path, lang='c', opt='-O1', flags=(), ct=False, defs=None, prefix='ll_', export=(), rename=None, cflags=()):
        self.path = path; self.lang = lang; self.opt = opt; self.flags = tuple(flags)
        self.ct = ct; self.defs = dict(defs or {}); self.prefix = prefix
        self.export = tuple(export); self.rename = dict(rename or {}); self.cflags = tuple(cflags)
    def key(self): return ('L', self.path, self.lang, self.opt, self.flags, self.ct,
                           tuple(sorted(self.defs.items())), self.prefix, self.export, tuple(sorted(self.rename.items())), self.cflags)


def qflags(d):
    """-D flags quoted for a shell script"""
    return [shlex.quote(x) for x in dflags(d)]


def dflags(d):
    out = []
    for k, v in sorted(d.items()):
        out.append('-D%s' % k if v is None or v is True else '-D%s=%s' % (k, v))
    return out


def cfg_defs(cfg):
    """build-configuration overrides through the C12 hook in src/skinny-internal.h"""
    d = {GUARD: 1}
    for k, v in cfg.items():
        d['%s_%s' % (GUARD, k)] = v
    return d


def sh(cmd, cwd=None, timeout=None, mem_gb=None, env=None):
    if env is None and _SCRATCH_TMP[0]: env = dict(os.environ, TMPDIR=_SCRATCH_TMP[0])
    """run a command in its own process group; returns (rc, stdout+stderr, seconds, maxrss_kb, timed_out)"""
    def pre():
        os.setsid()
        if mem_gb:
            lim = int(mem_gb * (1 << 30))
            resource.setrlimit(resource.RLIMIT_AS, (lim, lim))
    t0 = time.time()
    p = subprocess.Popen(cmd, cwd=cwd, stdout=subprocess.PIPE, stderr=subprocess.STDOUT, preexec_fn=pre, env=env)
    to = False
    try:
        out, _ = p.communicate(timeout=timeout)
    except subprocess.TimeoutExpired:
        to = True
        try: os.killpg(p.pid, signal.SIGKILL)
        except Exception: pass
        out, _ = p.communicate()
    try: os.killpg(p.pid, signal.SIGKILL)     # stray solver children
    except Exception: pass
    return p.returncode, out.decode('utf-8', 'replace'), time.time() - t0, 0, to


_SCRATCH_TMP = [None]      # temp files of compilers and solvers live (and die) with the run's scratch directory


class Result:
    def __init__(self, q, twin):
        self.q = q; self.twin = twin
        self.status = 'error'        # pass | fail | error | timeout | unwind
        self.failed = []             # [(property, description)]
        self.traces = {}             # property -> {lvalue: (binary, data)}
        self.seconds = 0.0; self.detail = ''; self.nprops = 0; self.vars = 0; self.clauses = 0
        self.rss_mb = 0


class Runner:
    def __init__(self, pid, tier, seed=0, keep=False):
        self.pid = pid; self.tier = tier; self.seed = seed; self.keep = keep
        root = os.environ.get('VERIF_SCRATCH') or tempfile.gettempdir()
        self.scratch = tempfile.mkdtemp(prefix='verif-%s-' % pid, dir=root)
        os.makedirs(os.path.join(self.scratch, 'tmp'), exist_ok=True); _SCRATCH_TMP[0] = os.path.join(self.scratch, 'tmp')
        self.objcache = {}
        self.notes = []
        self.t0 = time.time()
        self.build_errors = []
        self.memcv = threading.Condition(); self.mem_used = 0.0

    def cleanup(self):
        if not self.keep:
            shutil.rmtree(self.scratch, ignore_errors=True)

    # ------------------------------------------------------------------ building
    def _hash(self, key):
        return hashlib.sha1(repr(key).encode()).hexdigest()[:16]

    def src_path(self, p):
        return p if os.path.isabs(p) else os.path.join(REPO, p)

    def inc(self, q):
        return ([STUB_INC] if q.stubs else []) + INC

    def build_unit(self, u, q):
        """compile a native unit with goto-cc; cached per (unit, cfg, stubs)"""
        key = (u.key(), tuple(sorted(q.cfg.items())), q.stubs, q.std)
        h = self._hash(key)
        obj = os.path.join(self.scratch, 'u_%s.o' % h)
        if key in self.objcache: return self.objcache[key]
        d = dict(cfg_defs(q.cfg)); d.update(u.defs)
        cmd = ['goto-cc', '-std=' + q.std] + self.inc(q) + dflags(d) + ['-c', self.src_path(u.path), '-o', obj]
        rc, out, _, _, _ = sh(cmd, timeout=300)
        if rc != 0:
            raise BuildError('goto-cc failed for %s:\n%s' % (u.path, out[-3000:]))
        self.objcache[key] = obj
        return obj

    def build_ll(self, l, q):
        """clang -> IR -> ll2c -> C -> goto-cc object; cached"""
        from . import ll2c
        key = (l.key(), tuple(sorted(q.cfg.items())), q.std)
        if key in self.objcache: return self.objcache[key]
        h = self._hash(key)
        base = os.path.join(self.scratch, 'l_%s' % h)
        d = dict(cfg_defs(q.cfg)); d.update(l.defs)
        src = self.src_path(l.path)
        if l.lang == 'c':
            cc = ['clang-14', '-std=' + q.std, l.opt, '-fno-vectorize', '-fno-slp-vectorize', '-fno-unroll-loops']
        else:
            cc = ['clang++-14', '-std=c++11', l.opt, '-fno-exceptions', '-fno-rtti', '-fno-vectorize',
                  '-fno-slp-vectorize', '-fno-unroll-loops']
        cmd = cc + list(l.flags) + INC + dflags(d) + ['-S', '-emit-llvm', src, '-o', base + '.ll']
        rc, out, _, _, _ = sh(cmd, timeout=300)
        if rc != 0:
            raise BuildError('clang failed for %s:\n%s' % (l.path, out[-3000:]))
        tag = re.sub(r'\W', '_', os.path.basename(l.path))
        cmd = [sys.executable, os.path.join(VERIF, 'vlib', 'll2c.py'), base + '.ll', base + '.c', base + '.json',
               '--prefix', l.prefix, '--tag', tag, '--export', ','.join(l.export),
               '--rename', ','.join('%s=%s' % kv for kv in sorted(l.rename.items()))] + (['--ct'] if l.ct else [])
        rc, out, _, _, _ = sh(cmd, timeout=300)
        if rc != 0:
            raise BuildError('ll2c: cannot translate %s (inconclusive, never success): %s' % (l.path, out[-1500:]))
        info = json.load(open(base + '.json'))
        obj = base + '.o'
        cmd = ['goto-cc', '-std=gnu99', '-I' + os.path.join(VERIF, 'harness'), '-c', base + '.c', '-o', obj] + \
              (['-DCT_MODE'] if l.ct else []) + list(l.cflags)
        rc, out, _, _, _ = sh(cmd, timeout=300)
        if rc != 0:
            raise BuildError('goto-cc failed for translated %s:\n%s' % (l.path, out[-3000:]))
        self.objcache[key] = (obj, base + '.c', info)
        return self.objcache[key]

    # ------------------------------------------------------------------ one solver job
    def run_job(self, q, twin):
        need = min(q.mem_est, MEM_BUDGET_GB)
        with self.memcv:
            while self.mem_used + need > MEM_BUDGET_GB and self.mem_used > 0:
                self.memcv.wait()
            self.mem_used += need
        try:
            return self._run_job(q, twin)
        finally:
            with self.memcv:
                self.mem_used -= need; self.memcv.notify_all()

    def _run_job(self, q, twin):
        r = Result(q, twin)
        wd = tempfile.mkdtemp(prefix='j-', dir=self.scratch)
        try:
            objs = []
            for u in q.units: objs.append(self.build_unit(u, q))
            llinfo = []
            for l in q.ll:
                o, csrc, info = self.build_ll(l, q); objs.append(o); llinfo.append((l, csrc, info))
            d = dict(cfg_defs(q.cfg)); d.update(q.defs)
            if twin: d['WITNESS'] = 1
            hobj = os.path.join(wd, 'h.o')
            hsrc = os.path.join(VERIF, 'harness', q.harness)
            cmd = ['goto-cc', '-std=' + q.std] + self.inc(q) + ['-I' + wd] + dflags(d) + ['-c', hsrc, '-o', hobj]
            rc, out, _, _, _ = sh(cmd, timeout=300)
            if rc != 0:
                r.status = 'error'; r.detail = 'harness compile failed:\n' + out[-3000:]; return r
            prog = os.path.join(wd, 'prog.gb')
            rc, out, _, _, _ = sh(['goto-cc'] + [hobj] + objs + ['-o', prog], timeout=300)
            if rc != 0:
                r.status = 'error'; r.detail = 'link failed:\n' + out[-3000:]; return r
            link_warn = out
            cmd = ['cbmc', prog, '--function', q.entry, '--unwind', str(q.unwind), '--unwinding-assertions',
                   '--drop-unused-functions', '--json-ui', '--trace', '--verbosity', '6']
            if q.solver == 'kissat': cmd += ['--external-sat-solver', 'kissat']
            elif q.solver == 'cadical': cmd += ['--sat-solver', 'cadical']
            # q.solver == 'builtin': CBMC's default SAT back end, used as a second opinion on small obligations
            if q.unwindset:
                cmd += ['--unwindset', ','.join('%s:%d' % kv for kv in q.unwindset.items())]
            if q.malloc_fail: cmd += ['--malloc-may-fail', '--malloc-fail-null']
            else: cmd += ['--no-malloc-may-fail']
            if q.objbits: cmd += ['--object-bits', str(q.objbits)]
            if q.fsarray: cmd += ['--max-field-sensitivity-array-size', str(q.fsarray)]
            cmd += q.flags
            if twin: cmd += ['--no-standard-checks', '--stop-on-fail']
            rc, out, secs, _, to = sh(['/usr/bin/time', '-f', 'MAXRSS_KB %M'] + cmd, cwd=wd, timeout=q.timeout, mem_gb=q.mem_gb,
                                       env=dict(os.environ, TMPDIR=wd))      # CNF files for the external solver go to the job directory and die with it
            r.seconds = secs
            m = re.search(r'MAXRSS_KB (\d+)', out)
            if m: r.rss_mb = int(m.group(1)) // 1024
            if to:
                r.status = 'timeout'; r.detail = 'no verdict within %d s' % q.timeout; return r
            self.parse(r, out, link_warn)
            return r
        except BuildError as e:
            r.status = 'error'; r.detail = str(e); return r
        finally:
            if not self.keep: shutil.rmtree(wd, ignore_errors=True)

    def parse(self, r, out, link_warn=''):
        i = out.find('[')
        j = out.rfind(']')
        try:
            data = json.loads(out[i:j + 1])
        except Exception:
            r.status = 'error'; r.detail = 'unparsable CBMC output (%d bytes), tail: ' % len(out) + out[-400:].replace('\n', ' | '); return
        status = None; faults = []
        for x in data:
            if not isinstance(x, dict): continue
            mt = x.get('messageType'); txt = x.get('messageText', '')
            if mt == 'ERROR': faults.append(txt)
            if mt == 'WARNING':
                m = re.search(r"no body for (?:function|callee) '?([\w$.]+)'?", txt)
                if m and not HARMLESS_NOBODY.search(m.group(1)): faults.append(txt)
                if 'conflicting' in txt or ('ignoring' in txt and 'function' in txt): faults.append(txt)
            if mt == 'STATUS-MESSAGE':
                m = re.search(r'(\d+) variables, (\d+) clauses', txt)
                if m: r.vars = max(r.vars, int(m.group(1))); r.clauses = max(r.clauses, int(m.group(2)))
            if 'cProverStatus' in x: status = x['cProverStatus']
            plist = x.get('result', [])
            if 'property' in x and str(x.get('status', '')).lower() in ('failed', 'failure'):
                plist = [dict(x, status='FAILURE')]          # --stop-on-fail output shape
            if plist:
                for p in plist:
                    r.nprops += 1
                    if p.get('status') == 'FAILURE':
                        r.failed.append((p.get('property', ''), p.get('description', '')))
                        vals = {}
                        for s in p.get('trace', []):
                            if s.get('stepType') == 'assignment' and str(s.get('lhs', '')).startswith('sym_'):
                                v = s.get('value', {})
                                if 'binary' in v: vals[s['lhs']] = v['binary']
                        r.traces[p.get('property', '')] = vals
        for w in re.findall(r'.*(?:conflicting|ignoring).*', link_warn):
            faults.append('link: ' + w)
        if faults:
            r.status = 'error'; r.detail = 'machinery fault: ' + ' | '.join(faults[:5]); return
        if status is None:
            r.status = 'error'; r.detail = 'no verdict from CBMC:\n' + out[-1500:]; return
        if any('unwind' in p for p, _ in r.failed):
            r.status = 'unwind'; r.detail = 'unwinding assertion failed: bound too small'; return
        r.status = 'pass' if status == 'success' and not r.failed else 'fail'

    # ------------------------------------------------------------------ replay
    def replay(self, q, prop, vals, outdir):
        """compile the same harness with gcc against the real code, feed it the solver's values"""
        os.makedirs(outdir, exist_ok=True)
        lines = ['/* generated from the counterexample of %s (%s) */' % (q.name, prop),
                 'static void vh_replay_init(void)', '{']
        for lhs, b in vals.items():
            c = re.sub(r'\[(\d+)[lu]*\]', r'[\1]', lhs)
            if not re.fullmatch(r'[\w\[\].]+', c): continue
            lines.append('    %s = 0x%xULL;' % (c, int(b, 2)))
        lines.append('}')
        # fallback used only when the solver's own values do not reproduce (typically because the failure depends
        # on uninitialised memory, whose real content is decided by earlier calls): same harness, random inputs
        lines += ['static void vh_replay_random(unsigned seed)', '{', '    srand(seed);']
        for lhs, b in vals.items():
            c = re.sub(r'\[(\d+)[lu]*\]', r'[\1]', lhs)
            if not re.fullmatch(r'[\w\[\].]+', c): continue
            lines.append('    %s = (((unsigned long long)rand() << 32) ^ ((unsigned long long)rand() << 11) ^ (unsigned long long)rand());' % c)
        lines.append('}')
        with open(os.path.join(outdir, 'replay_values.inc'), 'w') as f: f.write('\n'.join(lines) + '\n')
        d = dict(cfg_defs(q.cfg)); d.update(q.defs); d['REPLAY'] = 1
        san = ['-fsanitize=address,undefined', '-fno-sanitize-recover=undefined', '-g'] if q.sanitize else []
        inc = ' '.join(self.inc(q))
        script = ['#!/bin/sh', '# replay of a counterexample for query %s, property %s' % (q.name, prop),
                  '# rebuilds from %s and runs; prints REPLAY-FAIL if the violation reproduces' % REPO,
                  'D=$(cd "$(dirname "$0")" && pwd)', 'T=$(mktemp -d)', 'trap \'rm -rf "$T"\' EXIT']
        script.append('# the real code is built at the shipped -O3 and at -O0 (uninitialised-memory and UB dependent')
        script.append('# behaviour differs between levels); the violation is reproduced if either build shows it')
        # symbol renamings used on the IR route (e.g. the tracking allocator) apply to the real files of the replay as well
        ren = {}
        for l in q.ll: ren.update(l.rename)
        rflags = ' '.join(shlex.quote('-D%s=%s' % kv) for kv in sorted(ren.items()))
        script.append('worst=0')
        script.append('for OPT in -O3 -O0; do')
        objs = []
        for k, u in enumerate(q.units):
            dd = dict(cfg_defs(q.cfg)); dd.update(u.defs)
            script.append('gcc -std=%s $OPT -w %s %s %s -c %s -o $T/u%d.o || exit 99' % (q.std, ' '.join(san), inc, ' '.join(qflags(dd)), self.src_path(u.path), k))
            objs.append('$T/u%d.o' % k)
        for k, l in enumerate(q.ll):
            if q.replay == 'ir':
                # no way to run the real object code under the counterexample's environment (e.g. an arbitrary CPUID
                # table): the replay executes the IR-derived C (differentially validated against the real build on
                # every run) natively instead, and says so
                try:
                    _, csrc, info = self.build_ll(l, q)
                except BuildError:
                    return 'error', 'cannot build translated unit'
                shutil.copy(csrc, os.path.join(outdir, 'll%d.c' % k))
                script.append('gcc -std=gnu99 $OPT -w %s %s -DREPLAY -I%s -c $D/ll%d.c -o $T/l%d.o || exit 99' % (' '.join(san), ' '.join((['-DCT_MODE'] if l.ct else []) + list(l.cflags)), os.path.join(VERIF, 'harness'), k, k))
                objs.append('$T/l%d.o' % k)
                continue
            dd = dict(cfg_defs(q.cfg)); dd.update(l.defs); dd['VH_SHIM'] = 1
            # the real file, compiled by gcc with the shipped flags, plus a shim that exposes the
            # erased ll_ signatures used by the harness
            shim = os.path.join(outdir, 'shim%d.c' % k)
            try:
                _, csrc, info = self.build_ll(l, q)
                from . import ll2c
                with open(shim, 'w') as f: f.write(ll2c.shim_source(self.src_path(l.path), info, l.prefix, l.export))
            except BuildError:
                return 'error', 'cannot build shim'
            cc = 'gcc -std=%s' % q.std if l.lang == 'c' else 'g++ -std=c++11 -fno-exceptions -fno-rtti -fpermissive'
            script.append('%s $OPT -w %s %s %s %s %s -c $D/shim%d.c -o $T/l%d.o || exit 99' % (cc, ' '.join(san), ' '.join(l.flags), inc, ' '.join(qflags(dd)), rflags, k, k))
            objs.append('$T/l%d.o' % k)
        hsrc = os.path.join(VERIF, 'harness', q.harness)
        script.append('gcc -std=%s $OPT -w %s %s -I$D %s -c %s -o $T/h.o || exit 99' % (q.std, ' '.join(san), inc, ' '.join(qflags(d)), hsrc))
        link = 'g++' if any(l.lang != 'c' for l in q.ll) else 'gcc'
        # the rest of the real library, as an archive: members are pulled in only for symbols still undefined
        script.append('rm -f $T/libskinny.a; for f in %s/src/*.c; do b=$(basename $f .c); fl=-msse2; case $b in *vec256) fl=-mavx2;; skinny-internal) fl="-msse2 -mavx2";; esac; '
                      'gcc -std=%s $OPT -w %s $fl %s %s %s -c $f -o $T/lib_$b.o & done; wait; ar rc $T/libskinny.a $T/lib_*.o'
                      % (REPO, q.std, ' '.join(san), inc, ' '.join(qflags(cfg_defs(q.cfg))), rflags))
        if q.replay == 'ir':
            script.append('gcc -std=gnu99 $OPT -w -c %s -o $T/nd.o || exit 99' % os.path.join(VERIF, 'harness', 'replay_nondet.c'))
            objs.append('$T/nd.o')
        script.append('%s %s %s $T/h.o %s $T/libskinny.a -o $T/replay || exit 99' % (link, ' '.join(san), '-Wl,--allow-multiple-definition' + (' -no-pie -Wl,--unresolved-symbols=ignore-all' if q.replay == 'ir' else ''), ' '.join(objs)))
        script.append('echo "== real code built with $OPT, inputs from the solver"; ASAN_OPTIONS=detect_odr_violation=0 MALLOC_PERTURB_=165 $T/replay; rc=$?')
        script.append('if [ $rc -ne 0 ] && [ $rc -ne 3 ]; then worst=$rc; break; fi')
        script.append('for S in 1 2 3 4 5 6 7 8 9 10 11 12 13 14 15 16 17 18 19 20 21 22 23 24; do')
        script.append('  ASAN_OPTIONS=detect_odr_violation=0 MALLOC_PERTURB_=165 $T/replay $S > $T/out.txt 2>&1; rc=$?')
        script.append('  if [ $rc -ne 0 ] && [ $rc -ne 3 ]; then echo "== real code built with $OPT, same harness, random inputs (seed $S)"; cat $T/out.txt; worst=$rc; break 2; fi')
        script.append('done')
        script.append('done')
        script.append('if [ $worst -eq 0 ]; then echo "replay: property held on the real build"; fi')
        script.append('exit $worst')
        sp = os.path.join(outdir, 'run.sh')
        with open(sp, 'w') as f: f.write('\n'.join(script) + '\n')
        os.chmod(sp, 0o755)
        rc, out, _, _, to = sh(['/bin/sh', sp], timeout=300)
        with open(os.path.join(outdir, 'output.txt'), 'w') as f: f.write(out)
        if to: return 'error', 'replay timed out'
        if 'REPLAY-FAIL' in out or 'AddressSanitizer' in out or 'runtime error' in out or rc < 0 or rc >= 128:
            return 'reproduced', out[-600:]
        if 'REPLAY-PASS' in out: return 'not-reproduced', out[-600:]
        return 'error', out[-1200:]


class BuildError(Exception):
    pass


def load_known_findings():
    """known-findings.txt: 'known: property=<id> key=<key> <text>' and 'fixed: property=<id> <commit> <text>'"""
    kf = {}; fixed = []
    p = os.path.join(VERIF, 'known-findings.txt')
    if os.path.exists(p):
        for line in open(p):
            line = line.strip()
            m = re.match(r'known:\s+property=(\S+)\s+key=(\S+)\s+(.*)$', line)
            if m: kf.setdefault(m.group(1), {})[m.group(2)] = m.group(3)
            m = re.match(r'fixed:\s+property=(\S+)\s+(\S+)\s+(.*)$', line)
            if m: fixed.append((m.group(1), m.group(2), m.group(3)))
    return kf, fixed


def run_check(pid, tier, plan, seed=0, only=None, keep=False):
    """plan: dict(queries=[Q], level=..., functions=[...], bounds={...}, assumptions=[...], rule=..., pre=[fn],
                  technique=...)"""
    t0 = time.time()
    R = Runner(pid, tier, seed, keep)
    kf_all, _ = load_known_findings()
    kf = kf_all.get(pid, {})
    queries = plan['queries']
    if only:
        queries = [q for q in queries if re.search(only, q.name)]
    inconclusive = []; violations = []; known_printed = []
    pre_notes = []
    try:
        pre_violations = []
        for fn in plan.get('pre', []):
            res = fn(R)
            ok, note = res[0], res[1]
            pre_notes.append(note)
            log('[pre] %s' % note)
            if len(res) == 3 and res[2]:
                pre_violations.append((note, res[2]))       # a pre-check that decided a clause itself and confirmed it on the real build
            elif not ok:
                inconclusive.append(('pre', note))
        jobs = []
        for q in queries:
            jobs.append((q, False))
            if q.witness and q.expect == 'pass': jobs.append((q, True))
        # pre-build shared units sequentially-by-key in parallel threads (cache is filled before fan-out)
        uniq = {}
        for q in queries:
            for u in q.units: uniq[(u.key(), tuple(sorted(q.cfg.items())), q.stubs, q.std)] = ('u', u, q)
            for l in q.ll: uniq[(l.key(), tuple(sorted(q.cfg.items())), q.std)] = ('l', l, q)
        def pb(item):
            kind, x, q = item
            try:
                R.build_unit(x, q) if kind == 'u' else R.build_ll(x, q)
                return None
            except BuildError as e:
                return str(e)
        with ThreadPoolExecutor(max_workers=JOBS) as ex:
            for err in ex.map(pb, list(uniq.values())):
                if err: R.build_errors.append(err)
        for e in R.build_errors:
            log('[build] ' + e[:2000])
        results = {}
        log('[%s] %d queries (%d solver jobs incl. witness twins), %d parallel' % (pid, len(queries), len(jobs), JOBS))
        # longest first
        jobs.sort(key=lambda j: -j[0].timeout)
        with ThreadPoolExecutor(max_workers=JOBS) as ex:
            futs = {ex.submit(R.run_job, q, tw): (q, tw) for (q, tw) in jobs}
            for f in as_completed(futs):
                q, tw = futs[f]
                r = f.result()
                results[(q.name, tw)] = r
                log('  %-58s %-7s %6.1fs %5dMB %s' % (q.name + (' [twin]' if tw else ''), r.status, r.seconds, r.rss_mb,
                                                     (r.detail.splitlines()[0][:100] if r.detail and r.status not in ('pass', 'fail') else
                                                      (','.join(sorted({d for _, d in r.failed}))[:100] if r.status == 'fail' and not tw else ''))))
        # ------------------------------------------------------------ judge
        discharged = 0; samples = []; solver_s = 0.0; peak = 0; canaries_ok = 0
        per_query = []
        for q in queries:
            r = results[(q.name, False)]
            solver_s += r.seconds; peak = max(peak, r.rss_mb)
            tw = results.get((q.name, True))
            if tw: solver_s += tw.seconds; peak = max(peak, tw.rss_mb)
            entry = {'query': q.name, 'obligation': q.desc, 'status': r.status, 'seconds': round(r.seconds, 1),
                     'properties_checked': r.nprops, 'sat_vars': r.vars, 'sat_clauses': r.clauses}
            if q.expect == 'fail':
                # a canary / finding witness: the solver must find the planted or recorded problem
                if r.status == 'fail':
                    if q.kf and q.kf in kf:
                        msg = 'KNOWN-FINDING: property=%s %s' % (pid, kf[q.kf])
                        if msg not in known_printed: log(msg); known_printed.append(msg)      # one line per listed finding
                    canaries_ok += 1; entry['verdict'] = 'found-as-expected'
                elif r.status == 'pass':
                    if q.kf:
                        log('note: recorded finding %s no longer reproduces in the model' % q.kf)
                        entry['verdict'] = 'finding-gone'
                    else:
                        inconclusive.append((q.name, 'canary not detected')); entry['verdict'] = 'canary-missed'
                else:
                    inconclusive.append((q.name, r.status + ': ' + r.detail[:300])); entry['verdict'] = 'inconclusive'
                per_query.append(entry); continue
            if r.status == 'pass':
                if tw is None:
                    discharged += 1; entry['verdict'] = 'discharged (no twin)'
                elif tw.status == 'fail' and any('WITNESS' in d for _, d in tw.failed) and \
                        all('WITNESS' in d for _, d in tw.failed):
                    discharged += 1; entry['verdict'] = 'discharged, twin reachable'
                elif tw.status == 'fail' and any('WITNESS' in d for _, d in tw.failed):
                    discharged += 1; entry['verdict'] = 'discharged, twin reachable'
                else:
                    inconclusive.append((q.name, 'vacuity twin: %s %s' % (tw.status, tw.detail[:200])))
                    entry['verdict'] = 'vacuous-or-twin-inconclusive'
            elif r.status == 'fail':
                # counterexample: replay on the real build before reporting
                rep_dir = os.path.join(OUT, 'replays', pid, re.sub(r'\W+', '_', q.name))
                reproduced = None
                if not q.replay:
                    inconclusive.append((q.name, 'counterexample (no replay route): ' + ', '.join(sorted({d for _, d in r.failed}))[:300]))
                    entry['verdict'] = 'counterexample-unreplayed'
                else:
                    # prefer assertion failures over low-level checks for the replay values
                    order = sorted(r.failed, key=lambda pd: (0 if 'assertion' in pd[0] else 1))
                    detail = ''
                    for prop, d in order[:3]:
                        shutil.rmtree(rep_dir, ignore_errors=True)
                        st, detail = R.replay(q, prop, r.traces.get(prop, {}), rep_dir)
                        if st == 'reproduced':
                            reproduced = (prop, d); break
                    if reproduced:
                        violations.append((q, reproduced, os.path.join(rep_dir, 'run.sh')))
                        entry['verdict'] = 'VIOLATION reproduced: ' + reproduced[1]
                    else:
                        inconclusive.append((q.name, 'counterexample did not reproduce on the real build (%s): %s'
                                             % (', '.join(sorted({d for _, d in r.failed}))[:200], detail[-200:])))
                        entry['verdict'] = 'counterexample-not-reproduced'
            else:
                inconclusive.append((q.name, r.status + ': ' + r.detail[:400]))
                entry['verdict'] = 'inconclusive'
            per_query.append(entry)
        n_expect_pass = sum(1 for q in queries if q.expect == 'pass')
        wall = time.time() - t0
        cov = {
            'evaluations': len(jobs),
            'distinct_nontrivial': discharged + len(violations) + len(pre_violations),
            'rule': plan.get('rule', 'one evaluation = one CBMC+kissat run (a query or its -DWITNESS twin); a query counts as '
                             'distinct and non-trivial when it is a different (harness, parameters) pair, the solver '
                             'answered UNSAT for every assertion within the stated bounds, and its twin showed the end of '
                             'the harness reachable (not vacuous), or the solver produced a counterexample that reproduced on the real build'),
            'samples': [{'query': e['query'], 'obligation': e['obligation'], 'verdict': e.get('verdict')} for e in per_query[:12]],
            'obligations': n_expect_pass, 'discharged': discharged,
            'inconclusive': [{'query': n, 'why': w[:300]} for n, w in inconclusive],
            'canaries_or_finding_witnesses_detected': canaries_ok,
            'functions_encoded': plan.get('functions', []),
            'bounds': plan.get('bounds', {}),
            'outside_the_bounds': plan.get('outside', []),
            'solver_seconds_total': round(solver_s, 1), 'peak_rss_mb': peak,
            'engine': 'cbmc 6.11.0 (symbolic execution of goto programs built from /repo working tree) + kissat (SAT)',
            'pre_checks': pre_notes,
            'queries': per_query,
            'known_findings_printed': known_printed,
            'exhaustive': False,
        }
        ev = {'property_id': pid, 'tier': tier, 'seed': seed, 'level': plan.get('level', 'model_checking'),
              'coverage': cov, 'assumptions': plan.get('assumptions', []), 'wall_s': round(wall, 1),
              'violations': len(violations) + len(pre_violations)}
        if plan.get('level') == 'translation_validation':
            cov['programs'] = discharged; cov['disagreements_checked'] = len(violations) + len([1 for n, w in inconclusive if 'counterexample' in w])
        os.makedirs(os.path.join(OUT, 'evidence'), exist_ok=True)
        # a run restricted with --only is a development aid: it must not replace the evidence of the full check
        with open(os.path.join(OUT, 'evidence', pid + ('.only.json' if only else '.json')), 'w') as f:
            json.dump(ev, f, indent=1)
        for note, path in pre_violations:
            log('VIOLATION property=%s replay=%s' % (pid, path)); log('   ' + note[:400])
        for q, (prop, d), path in violations:
            log('VIOLATION property=%s replay=%s' % (pid, path))
            log('   query %s: %s  [%s]' % (q.name, d, q.desc))
        for n, w in inconclusive:
            log('INCONCLUSIVE %s: %s' % (n, w[:500]))
        log('[%s] tier=%s obligations=%d discharged=%d inconclusive=%d violations=%d wall=%.0fs solver=%.0fs'
            % (pid, tier, n_expect_pass, discharged, len(inconclusive), len(violations) + len(pre_violations), wall, solver_s))
        if violations or pre_violations: return 1
        if inconclusive or R.build_errors: return 2
        return 0
    finally:
        R.cleanup()
